#!/venv/bin/python
"""Sensitivity proof: apply each mutant of mutants/catalog.json to a scratch copy of the repo
(outside /repo and /verif), run the quick check of the property it breaks, expect exit 1 with a
replay that reproduces, delete the copy.  Usage: run_mutants.py [id-substring ...] [--tests] [--all-checks]
"""
import json
import os
import shutil
import subprocess
import sys
import time

HERE = os.path.dirname(os.path.dirname(os.path.abspath(__file__)))
SCRATCH = '/var/tmp/verif_mutant_%d' % os.getpid()


def main():
    args = [a for a in sys.argv[1:] if not a.startswith('--')]
    flags = [a for a in sys.argv[1:] if a.startswith('--')]
    cat = json.load(open(os.path.join(HERE, 'mutants', 'catalog.json')))
    results = []
    for m in cat:
        if args and not any(a in m['id'] for a in args):
            continue
        shutil.rmtree(SCRATCH, ignore_errors=True)
        shutil.copytree(os.environ.get('VERIF_SRC_REPO', '/repo'), SCRATCH, ignore=shutil.ignore_patterns('.git', '__pycache__', '*.egg-info'))
        try:
            p = os.path.join(SCRATCH, m['file'])
            s = open(p).read()
            if s.count(m['old']) != 1:
                results.append((m['id'], 'SKIP: pattern occurs %d times' % s.count(m['old'])))
                print(results[-1])
                continue
            open(p, 'w').write(s.replace(m['old'], m['new']))
            env = dict(os.environ, VERIF_REPO=SCRATCH, PYTHONDONTWRITEBYTECODE='1')
            tests = ''
            if '--tests' in flags:
                t = subprocess.run(['/venv/bin/python', '-m', 'pytest', '-q', '-p', 'no:cacheprovider', '-x', '--timeout=300', 'tests'], cwd=SCRATCH,
                                   capture_output=True, text=True, env=dict(env, PYTHONPATH=SCRATCH))
                tests = 'tests:' + ('pass' if t.returncode == 0 else 'FAIL') + ' '
            props = m['property'] if isinstance(m['property'], list) else [m['property']]
            if '--all-checks' in flags:
                props = json.load(open(os.path.join(HERE, 'MANIFEST.json')))['checks']
                props = [c['property_id'] for c in props]
            caught = []
            for prop in props:
                t0 = time.time()
                r = subprocess.run([os.path.join(HERE, 'check'), prop, '--tier', 'quick', '--no-evidence'], capture_output=True, text=True, env=env, cwd=HERE)
                sigs = [l.split()[1] for l in r.stdout.splitlines() if l.startswith('SIGNATURE ')]
                caught.append('%s:exit%d(%.0fs)%s' % (prop, r.returncode, time.time() - t0, (' ' + ','.join(sigs[:3])) if sigs else ''))
                if r.returncode == 2:
                    caught.append(r.stdout[-600:])
            results.append((m['id'], tests + ' | '.join(caught)))
            print(results[-1], flush=True)
        finally:
            shutil.rmtree(SCRATCH, ignore_errors=True)
    missed = [r for r in results if 'exit1' not in r[1] and not r[1].startswith('SKIP')]
    print('%d mutants, %d missed' % (len(results), len(missed)))
    for r in missed:
        print('MISSED', r)


if __name__ == '__main__':
    main()
