#!/venv/bin/python
"""Reach measurement: which lines of pytoniq_core do the simulated runs of a check execute?

  tools/coverage_report.py C06 [runs-per-leg]      -> prints missed lines per library file
  tools/coverage_report.py all [runs-per-leg]      -> union over all 14 checks, writes evidence/reach.json

Runs execute in this process (no fork) under coverage.py; the numbers are a reach probe for the harness
authors ("this branch is never visited -> change the workload"), not a verification result.
"""
import json
import os
import sys

os.environ.setdefault('PYTHONHASHSEED', '0')
HERE = os.path.dirname(os.path.dirname(os.path.abspath(__file__)))
sys.path.insert(0, HERE)

import coverage  # noqa: E402


def measure(props, n):
    repo = os.environ.get('VERIF_REPO', '/repo')
    cov = coverage.Coverage(data_file=None, include=[os.path.join(repo, 'pytoniq_core', '*')], branch=False)
    cov.start()
    try:
        from detsim import lib  # noqa: F401   (the library is imported under measurement, so def lines count as run)
        import check as checkmod
        from detsim import core
        for prop in props:
            world = checkmod.make_world(prop, 'quick')
            for leg, total in world.get_legs():
                for i in range(min(n, total)):
                    try:
                        core.execute(world, leg, i, 0, set())
                    except Exception as e:  # harness errors are not this tool's business
                        print('run %s/%s/%d raised %r' % (prop, leg, i, e))
    finally:
        cov.stop()
    return cov, repo


def main():
    what = sys.argv[1]
    n = int(sys.argv[2]) if len(sys.argv) > 2 else 60
    props = sorted(__import__('check').WORLDS) if what == 'all' else what.split(',')
    cov, repo = measure(props, n)
    data = cov.get_data()
    out = {}
    for f in sorted(data.measured_files()):
        rel = os.path.relpath(f, repo)
        try:
            _, stmts, _, missing, _ = cov.analysis2(f)
        except Exception:
            continue
        out[rel] = {'statements': len(stmts), 'missed': len(missing), 'missing_lines': missing}
        print('%-50s %4d stmts %4d missed  %s' % (rel, len(stmts), len(missing), _ranges(missing)[:400]))
    if what == 'all':
        with open(os.path.join(HERE, 'evidence', 'reach.json'), 'w') as fh:
            json.dump({'runs_per_leg': n, 'files': {k: {'statements': v['statements'], 'missed': v['missed'], 'missing': _ranges(v['missing_lines'])} for k, v in out.items()}}, fh, indent=1, sort_keys=True)


def _ranges(lines):
    res, start, prev = [], None, None
    for x in lines:
        if start is None:
            start = prev = x
        elif x == prev + 1:
            prev = x
        else:
            res.append('%d-%d' % (start, prev) if prev != start else str(start))
            start = prev = x
    if start is not None:
        res.append('%d-%d' % (start, prev) if prev != start else str(start))
    return ','.join(res)


if __name__ == '__main__':
    main()
