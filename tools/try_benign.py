#!/venv/bin/python
"""False-alarm probe: property-PRESERVING changes written by sub-agents that saw only a property text.

  try_benign.py <worktree> <property> [only-N ...]

For every <worktree>/benignN.diff: apply it to a scratch copy of /repo HEAD (outside /repo and /verif), run the
51 baseline tests there, then the quick checks of every property anchored in the files the patch touches
(VERIF_REPO=<copy>), delete the copy.  Every check is expected to exit 0; an exit 1 is a candidate false alarm
and is triaged by hand (either the patch really breaks the property - then it is not benign - or the check asks
more than the statement).  Patches and results are kept under /verif/benign/<property>-<N>/.
"""
import json
import os
import re
import shutil
import subprocess
import sys
import time

HERE = os.path.dirname(os.path.dirname(os.path.abspath(__file__)))

FILE_PROPS = [
    ('boc/cell.py', 'C01 C03 C08 C19'),
    ('boc/exotic.py', 'C01 C11 C05'),
    ('boc/tvm_bitarray.py', 'C07 C06 C08'),
    ('boc/builder.py', 'C06 C07 C08'),
    ('boc/slice.py', 'C06 C07 C08'),
    ('boc/deserialize.py', 'C05 C03 C19'),
    ('boc/address.py', 'C13 C06'),
    ('boc/hashmap', 'C09 C19'),
    ('boc/utils.py', 'C05'),
    ('boc/dict', 'C09'),
    ('proof/', 'C11 C12'),
    ('crypto/crc', 'C13 C05'),
    ('crypto/', 'C20 C12'),
    ('tl/', 'C14 C19'),
    ('tlb/vm_stack.py', 'C17 C08'),
    ('tlb/account.py', 'C11'),
    ('tlb/block.py', 'C11'),
    ('tlb/config.py', 'C12'),
    ('tlb/transaction.py', 'C08'),
    ('tlb/', 'C11'),
]


def sh(cmd, cwd=None, timeout=1800, env=None):
    p = subprocess.run(cmd, shell=True, cwd=cwd, capture_output=True, text=True, timeout=timeout, env=env)
    return p.returncode, (p.stdout + p.stderr)


def props_for(patch_text, own):
    props = [own]
    for f in re.findall(r'^\+\+\+ b/pytoniq_core/(\S+)', patch_text, re.M):
        for prefix, ps in FILE_PROPS:
            if f.startswith(prefix):
                for p in ps.split():
                    if p not in props:
                        props.append(p)
                break
    return props


def main():
    wt, own = sys.argv[1], sys.argv[2]
    only = sys.argv[3:]
    bad = 0
    for n in '1234':
        if only and n not in only:
            continue
        src = os.path.join(wt, 'benign%s.diff' % n)
        dst = os.path.join(HERE, 'benign', '%s-%s' % (own, n))
        if os.path.exists(src):
            os.makedirs(dst, exist_ok=True)
            shutil.copy(src, os.path.join(dst, 'patch.diff'))
            demo = os.path.join(wt, 'benign%s_demo.py' % n)
            if os.path.exists(demo):
                shutil.copy(demo, os.path.join(dst, 'demo.py'))
        patch = os.path.join(dst, 'patch.diff')
        if not os.path.exists(patch):
            continue
        text = open(patch).read()
        scratch = '/var/tmp/verif_benign_%d' % os.getpid()
        shutil.rmtree(scratch, ignore_errors=True)
        os.makedirs(scratch)
        sh('git -C /repo archive HEAD | tar -x -C %s' % scratch)
        rc, out = sh('patch -p1 -s -i %s' % patch, cwd=scratch)
        meta = {'id': '%s-%s' % (own, n), 'property': own}
        try:
            if rc != 0:
                meta['applies'] = False
                print(own, n, 'patch does not apply', out[:200])
                continue
            rc, tests = sh('/venv/bin/python -m pytest -q -p no:cacheprovider tests 2>&1 | tail -1', cwd=scratch)
            meta['tests'] = tests.strip()
            if 'passed' not in tests or 'failed' in tests:
                print(own, n, 'TESTS FAIL with the patch - not a benign change:', tests.strip())
                meta['verdict'] = 'not benign: baseline tests fail'
                continue
            results = {}
            for p in props_for(text, own):
                t0 = time.time()
                env = dict(os.environ, VERIF_REPO=scratch, PYTHONDONTWRITEBYTECODE='1')
                rc, out = sh('./check %s --tier quick --no-evidence' % p, cwd=HERE, env=env)
                sigs = [l.split()[1] for l in out.splitlines() if l.startswith('SIGNATURE ')]
                results[p] = {'exit': rc, 'signatures': sigs[:6], 'wall_s': round(time.time() - t0, 1)}
                print(own, n, p, 'exit', rc, sigs[:3], '%.0fs' % (time.time() - t0), flush=True)
                if rc != 0:
                    bad += 1
                    log = os.path.join(dst, 'alarm_%s.log' % p)
                    open(log, 'w').write(out[-6000:])
            meta['quick_check_results'] = results
            meta['alarms'] = [p for p, r in results.items() if r['exit'] != 0]
        finally:
            shutil.rmtree(scratch, ignore_errors=True)
            old = {}
            mp = os.path.join(dst, 'meta.json')
            if os.path.exists(mp):
                old = json.load(open(mp))
            old.update(meta)
            json.dump(old, open(mp, 'w'), indent=1)
    return 1 if bad else 0


if __name__ == '__main__':
    sys.exit(main())
