#!/venv/bin/python
"""Prints the prompt given to a seeding sub-agent: property text + worktree path only."""
import json, sys
pid, wt = sys.argv[1], sys.argv[2]
extra = sys.argv[3] if len(sys.argv) > 3 else ''
p = [json.loads(l) for l in open('/verif/properties.jsonl') if json.loads(l)['id'] == pid][0]
print(f"""You are helping to evaluate a verification effort by playing the role of a developer who introduces a subtle regression.

Repository: a git worktree of the Python library pytoniq-core (pure-Python TON blockchain primitives) at {wt} . Work ONLY inside {wt} (never touch /repo or /verif, and do not read anything under /verif). Python interpreter: /venv/bin/python . There is no network.
To run the existing test suite against YOUR worktree: cd {wt} && /venv/bin/python -m pytest -q -p no:cacheprovider tests   (51 tests; confirm with `cd {wt} && /venv/bin/python -c "import pytoniq_core; print(pytoniq_core.__file__)"` that the worktree copy is the one imported - running from the worktree directory with `python -m` puts it first on sys.path.)

The semantic property that should hold for this library:

  Title: {p['title']}
  Statement: {p['statement']}
  Quantified over: {p['quantifier']['text']}

Your task: make ONE small source change to the library code under {wt}/pytoniq_core (not to tests) that BREAKS this property while the package still imports and ALL 51 existing tests still pass. The change should look like a plausible refactoring slip or well-meant optimisation, and - importantly - it must need something specific to manifest: a particular multi-step sequence of operations, an unusual (but valid) input class, a boundary value, a particular interleaving of callers, a fault at a particular point, or two cooperating code sites that each look fine alone. Do NOT produce a change that ordinary use would expose at once (e.g. do not break every hash or every round trip). {extra}

Deliver, all inside {wt}:
 1. the source change itself (leave it applied in the working tree, uncommitted);
 2. {wt}/patch.diff produced by `git -C {wt} diff -- pytoniq_core > {wt}/patch.diff`;
 3. {wt}/demo.py : a small standalone program (run as `cd {wt} && /venv/bin/python demo.py`) that exits 0 and prints PASS on the ORIGINAL code and exits 1 printing FAIL on the changed code, demonstrating the property violation through the public API;
 4. verify yourself: with the change applied the 51 tests pass and demo.py fails; after `git -C {wt} apply -R patch.diff` the demo passes; then `git -C {wt} apply patch.diff` to leave the change applied (do NOT use git stash: the stash is shared with other worktrees of the same repository).
 
In your final answer give: the changed file(s) and lines, a 2-3 sentence explanation of what breaks and exactly what is needed to trigger it, and the outputs of the test run and both demo runs.""")
