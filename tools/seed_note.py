#!/venv/bin/python
import json,sys
p='/verif/seeded/%s/meta.json'%sys.argv[1]
m=json.load(open(p)); m['change']=sys.argv[2]; m['needs_to_manifest']=sys.argv[3]
m['what_was_run']='tools/try_seeded.py: 51 baseline tests with the change, demo.py with/without the change in the scratch worktree, then the patch applied to a scratch copy of /repo HEAD (VERIF_REPO), ./check <prop> --tier quick, copy deleted'
json.dump(m,open(p,'w'),indent=1)
