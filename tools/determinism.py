#!/venv/bin/python
"""Determinism self-test (DESIGN 7.5): for each property, N seeds per leg are run in fresh interpreters
  (a) twice with 16 workers, PYTHONHASHSEED=0   (b) with 1 worker   (c) with PYTHONHASHSEED=1
and the digests over all per-run event logs must be identical.
Usage: determinism.py [N] [property ...]      exit 0 = all equal, 1 = a divergence.
"""
import json
import os
import subprocess
import sys
import time

HERE = os.path.dirname(os.path.dirname(os.path.abspath(__file__)))


def digest(prop, n, workers, hashseed, seed=0):
    env = dict(os.environ, PYTHONHASHSEED=str(hashseed), VERIF_SEED=str(seed), PYTHONDONTWRITEBYTECODE='1')
    p = subprocess.run([os.path.join(HERE, 'check'), prop, '--digests', str(n), '--workers', str(workers)], capture_output=True, text=True, env=env, cwd=HERE, timeout=3600)
    for line in p.stdout.splitlines():
        if line.startswith('DIGEST '):
            return line
    return 'ERROR ' + (p.stdout + p.stderr)[-300:]


def main():
    args = sys.argv[1:]
    n = int(args[0]) if args and args[0].isdigit() else 200
    props = [a for a in args if not a.isdigit()] or [c['property_id'] for c in json.load(open(os.path.join(HERE, 'MANIFEST.json')))['checks']]
    bad = 0
    out = {}
    for p in props:
        t0 = time.time()
        a = digest(p, n, 16, 0)
        b = digest(p, n, 16, 0)
        c = digest(p, max(1, n // 8), 1, 0)
        c16 = digest(p, max(1, n // 8), 16, 0)
        d = digest(p, n, 16, 1)
        e = digest(p, n, 7, 0, seed=1)
        f = digest(p, n, 16, 1, seed=1)
        ok = a == b == d and c == c16 and e == f and a.startswith('DIGEST') and c.startswith('DIGEST') and e.startswith('DIGEST') and a != e
        out[p] = {'ok': ok, 'runs_per_leg': n, 'digest': a, 'wall_s': round(time.time() - t0, 1)}
        print(p, 'OK' if ok else 'DIVERGES', a[:40], '%.0fs' % (time.time() - t0), flush=True)
        if not ok:
            bad += 1
            print('  ', a, '\n  ', b, '\n  ', c, '\n  ', c16, '\n  ', d, '\n  ', e, '\n  ', f)
    with open(os.path.join(HERE, 'evidence', 'determinism.json'), 'w') as fh:
        json.dump({'runs_per_leg': n, 'configurations': ['16 workers x2, hashseed 0', '1 vs 16 workers', 'hashseed 1', 'VERIF_SEED=1 at 7 and 16 workers / hashseed 0 and 1'], 'results': out}, fh, indent=1, sort_keys=True)
    return 1 if bad else 0


if __name__ == '__main__':
    sys.exit(main())
