#!/venv/bin/python
"""Regression of the kept seeded changes: apply each seeded/<id>/patch.diff to a scratch copy of /repo
(outside /repo and /verif), run the quick check(s) of the property it breaks with VERIF_REPO pointing at
the copy, expect exit 1, delete the copy.  Usage: run_seeded.py [id-substring ...]
Results go to seeded/results.txt; /repo itself is never touched."""
import json
import os
import shutil
import subprocess
import sys
import time

HERE = os.path.dirname(os.path.dirname(os.path.abspath(__file__)))
SCRATCH = '/var/tmp/verif_seeded_%d' % os.getpid()


def main():
    args = sys.argv[1:]
    lines = []
    missed = 0
    for sid in sorted(os.listdir(os.path.join(HERE, 'seeded'))):
        d = os.path.join(HERE, 'seeded', sid)
        if not os.path.isdir(d) or (args and not any(a in sid for a in args)):
            continue
        meta = json.load(open(os.path.join(d, 'meta.json')))
        if meta.get('outside_statement'):
            # kept for the record: judged not to break the property as stated (DESIGN 13), no check is expected to report it
            lines.append('%s OUTSIDE-STATEMENT not counted' % sid)
            print(lines[-1], flush=True)
            continue
        shutil.rmtree(SCRATCH, ignore_errors=True)
        shutil.copytree(os.environ.get('VERIF_SRC_REPO', '/repo'), SCRATCH, ignore=shutil.ignore_patterns('.git', '__pycache__', '*.egg-info'))
        try:
            p = subprocess.run(['patch', '-p1', '-s', '-i', os.path.join(d, 'patch.diff')], cwd=SCRATCH, capture_output=True, text=True)
            if p.returncode != 0:
                lines.append('%s PATCH-DOES-NOT-APPLY %s' % (sid, (p.stdout + p.stderr).strip()[:200]))
                print(lines[-1], flush=True)
                continue
            env = dict(os.environ, VERIF_REPO=SCRATCH, PYTHONDONTWRITEBYTECODE='1')
            res = []
            caught = False
            for prop in meta.get('caught_by') or [meta['property']]:
                t0 = time.time()
                r = subprocess.run([os.path.join(HERE, 'check'), prop, '--tier', 'quick', '--no-evidence'], capture_output=True, text=True, env=env, cwd=HERE)
                sigs = [l.split()[1] for l in r.stdout.splitlines() if l.startswith('SIGNATURE ')]
                res.append('%s:exit%d(%.0fs) %s' % (prop, r.returncode, time.time() - t0, ','.join(sigs[:2])))
                caught = caught or r.returncode == 1
            if not caught:
                missed += 1
            lines.append('%s %s %s' % (sid, 'caught' if caught else 'MISSED', ' | '.join(res)))
            print(lines[-1], flush=True)
        finally:
            shutil.rmtree(SCRATCH, ignore_errors=True)
    lines.append('%d seeded changes, %d missed' % (len(lines), missed))
    print(lines[-1])
    if not args:
        with open(os.path.join(HERE, 'seeded', 'results.txt'), 'w') as f:
            f.write('\n'.join(lines) + '\n')
    return 1 if missed else 0


if __name__ == '__main__':
    sys.exit(main())
