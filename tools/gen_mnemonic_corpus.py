#!/venv/bin/python
"""Builds refmodel/vectors/mnemonics.bin: N valid TON mnemonics (24 words, 'basic seed' by the TON rule), found by the
reference rule alone (hashlib; pytoniq_core is not imported).  33 bytes per phrase: 24 word indices of 11 bits, big-endian.
Deterministic: phrase candidates of worker j come from random.Random('mnemonic-corpus/<j>').
Usage: gen_mnemonic_corpus.py [N=16384]"""
import hashlib
import hmac
import os
import random
import sys
from concurrent.futures import ProcessPoolExecutor

HERE = os.path.dirname(os.path.dirname(os.path.abspath(__file__)))
sys.path.insert(0, HERE)
from refmodel.mnemonic import WORDS, is_basic_seed_ref  # noqa: E402


def work(args):
    j, n = args
    rng = random.Random('mnemonic-corpus/%d' % j)
    out = []
    while len(out) < n:
        idx = [rng.randrange(2048) for _ in range(24)]
        if is_basic_seed_ref([WORDS[i] for i in idx]):
            v = 0
            for i in idx:
                v = (v << 11) | i
            out.append(v.to_bytes(33, 'big'))
    return b''.join(out)


def main():
    n = int(sys.argv[1]) if len(sys.argv) > 1 else 16384
    parts = 64
    with ProcessPoolExecutor(16) as ex:
        blobs = list(ex.map(work, [(j, n // parts) for j in range(parts)]))
    data = b''.join(blobs)
    with open(os.path.join(HERE, 'refmodel', 'vectors', 'mnemonics.bin'), 'wb') as f:
        f.write(data)
    print(len(data) // 33, 'phrases', hashlib.sha256(data).hexdigest())


if __name__ == '__main__':
    main()
