#!/venv/bin/python
"""Writes /verif/MANIFEST.json from the table below (only worlds that exist are registered)."""
import importlib.util
import json
import os

HERE = os.path.dirname(os.path.dirname(os.path.abspath(__file__)))

CHECKS = {
    'C01': ('POOL', 'worlds/pool.py', 'exploration', '6 C01',
            'seeded histories over a cell pool through every construction route, each cell compared with the RCell reference (hash, depth, ==, dict-key collisions, recomputed representation hash)',
            '(M) fault-free history refinement; trusted base: refmodel/rcell.py (SHA-256 from hashlib), validated on the pinned main-net block and empty-cell hashes; contents are seeded samples',
            'deterministic simulation: seeded route histories vs reference cell model'),
    'C03': ('POOL', 'worlds/pool.py', 'exploration', '6 C03',
            'seeded histories: serialise with each of the 6 option sets x 3 encodings x 4 entry points through a lossless store, re-parse and compare recursively with the model and the original hash; forced shape classes incl. 256/65536 boundaries, 1023-deep chains and chains of data-less cells',
            '(M) fault-free; trusted base: refmodel/rcell.py + refmodel/boc.py; sampling, not enumeration, of DAGs',
            'deterministic simulation: seeded configuration/route histories with reference BoC codec'),
    'C05': ('WIRE', 'worlds/wire.py', 'fault_enumeration', '6 C05',
            'foreign conforming encoder (all freedoms) -> medium -> parser; per sampled encoding EVERY proper prefix, a set of extensions, EVERY single-bit flip (CRC-protected encodings) and every reference-slot corruption (self/backward/dangling, CRC recomputed) is delivered, as bytes or as hex/base64 text; strict reference decoder decides validity',
            '(S) simulation proper: the medium injects the faults; trusted base: refmodel/boc.py strict decoder; encodings are seeded samples, the fault set per encoding is exhaustive',
            'deterministic simulation: exhaustive fault enumeration per seeded encoding'),
    'C06': ('BUILD', 'worlds/build.py', 'exploration', '6 C06',
            'seeded store/peek/load histories on Builder+Slice vs a bit-exact TL-B model, checked operation by operation',
            '(M) fault-free history refinement; trusted base: refmodel/tlb.py; value classes are forced, values inside a class are seeded samples',
            'deterministic simulation: seeded operation histories vs executable reference model'),
    'C07': ('BUILD', 'worlds/build.py', 'exploration', '6 C07',
            'seeded histories aimed at the capacity/range/read limits by a generator that reads the model fill level, continuing after refused operations',
            '(M) history refinement with refused operations as the error paths; trusted base: refmodel/tlb.py, refmodel/rcell.py',
            'deterministic simulation: limit-aimed seeded histories vs executable reference model'),
    'C08': ('POOL', 'worlds/pool.py', 'exploration', '6 C08',
            'K interleaved callers over a shared cell arena; after every step every live cell equals its creation snapshot, arguments are untouched, repeated reads agree; after the run each caller log equals its solo replay (non-interference); callers go on using what the library returned (order() dicts as accumulators, from_boc lists as work lists, values handed out by read-only accessors edited in place)',
            '(S) the scheduler owns the caller interleaving and hidden process state; the library is compared with itself, no reference hash involved',
            'deterministic simulation: seeded caller interleavings with snapshot invariants and solo-replay non-interference'),
    'C09': ('DICT', 'worlds/dict.py', 'exploration', '6 C09',
            'set-sequence histories (permutations, overwrites, rejected keys) on HashMap, then serialise and every parse route; exhaustive key subsets for widths 1..3 (4 in thorough); value kinds incl. maps of maps (writer and parser re-entered from a value)',
            '(M) fault-free; model is a Python dict; canonical-form questions are C10 (not applicable)',
            'deterministic simulation: seeded + exhaustive insertion histories vs dict model'),
    'C11': ('CHAIN', 'worlds/chain.py', 'exploration', '6 C11',
            'honest and Byzantine lite-server (one deviation per proof from the statement list, plus bit flips in transit) against the three proof checks; reference verifier decides whether the delivered tree still proves the claim; retry after healing must succeed',
            '(S) Byzantine prover + faulty transport; trusted base: refmodel RCell/BoC/hashmap and the synthetic block/state builders',
            'deterministic simulation: Byzantine prover and transport faults vs reference verifier'),
    'C12': ('CHAIN', 'worlds/chain.py', 'exploration', '6 C12',
            'validators sign over a lossy/duplicating/reordering net with Byzantine signers; the collected multiset is judged by the statement model (distinct valid known signers, strict > 2/3); validator rotation, sibling-block replays incl. one identifier object advanced in place, signers that sign again with a fresh nonce, validator_addr sets with signatures filed under ADNL addresses',
            '(S) network faults + Byzantine validators; Ed25519 from PyNaCl is trusted',
            'deterministic simulation: faulty signature-collection network vs acceptance model'),
    'C13': ('WIRE', 'worlds/wire.py', 'fault_enumeration', '6 C13',
            'text channel: every workchain x 8 variants round trip; per sampled address and variant all 48x63 single-character substitutions must be rejected; address objects obtained by eight routes (incl. anycast carriers, objects used as cursors), related addresses in one process, engineered checksums, receivers started with other interpreter options (-O, -OO, -I ...)',
            '(S) symbol faults in a medium; CRC-16 burst detection argument in DESIGN 6/C13; reference CRC-16 bitwise',
            'deterministic simulation: exhaustive symbol-substitution enumeration per seeded address'),
    'C14': ('TL', 'worlds/tl.py', 'exploration', '6 C14',
            'all 6 schema-directory orders x every in-domain constructor x seeded values; reference TL codec taps the wire both ways; bare/by-name argument forms, embedded objects (dict, OrderedDict, subclass), sender and receiver keep using the values, block-id helpers incl. edited dicts and identifiers advanced in place',
            '(M)/(E) environment seam os.listdir; trusted base: refmodel/tl.py',
            'deterministic simulation: directory-order seam + peer frames vs reference TL codec'),
    'C17': ('VM', 'worlds/vm.py', 'exploration', '6 C17',
            'repeated serialize/deserialize histories on caller-held stacks with deep snapshots and a reference VmStack encoder; the caller moves on with / edits its values in place between serialisations',
            '(M) fault-free histories; trusted base: refmodel/vm.py',
            'deterministic simulation: repeated-call histories vs reference encoder and snapshots'),
    'C19': ('WORK', 'worlds/work.py', 'exploration', '6 C19',
            'step clock (executed pytoniq_core source lines) with budgets polynomial in n+e / linear in input length; adversarial sharing shapes and count fields, byte and text (hex/base64, cut at every length) inputs',
            '(S) simulated time is the only clock; budgets documented in DESIGN 6/C19',
            'deterministic simulation: step-clock budgets under adversarial inputs'),
    'C20': ('ADNL', 'worlds/adnl.py', 'exploration', '6 C20',
            'two real peers over a lossy/duplicating/reordering/bit-flipping datagram net; entropy seam for keys and mnemonics (biased streams, scripted valid phrases, dry spells of k known-invalid candidates, password argument form)',
            '(S) network faults + entropy seam; AES/Ed25519/X25519 primitives trusted',
            'deterministic simulation: faulty datagram net between two real peers + entropy seam'),
}

NA = {
    'C02': 'pure function tree -> (level mask, per-level hashes, depths); no history, party, fault, entropy or step budget to simulate (DESIGN 6/C02)',
    'C04': 'pure function (DAG, options) -> bytes judged against a format definition; conformance testing, not simulation (DESIGN 6/C04)',
    'C10': 'both halves are pure functions (map -> canonical cell, cell -> map); no schedule/fault/history dimension (DESIGN 6/C10)',
    'C15': 'pure value <-> cell codec; deciding it is differential testing against a schema-driven encoder (DESIGN 6/C15)',
    'C16': 'pure cell -> record parsers; deciding it is differential testing (DESIGN 6/C16)',
    'C18': 'pure function bytes -> checksum; no simulator dimension (DESIGN 6/C18)',
}

ENGINES = {
    'BUILD': 'worlds/build.py', 'POOL': 'worlds/pool.py', 'DICT': 'worlds/dict.py', 'VM': 'worlds/vm.py', 'WIRE': 'worlds/wire.py',
    'TL': 'worlds/tl.py', 'CHAIN': 'worlds/chain.py', 'ADNL': 'worlds/adnl.py', 'WORK': 'worlds/work.py',
}


def main():
    checks = []
    served = {}
    for pid, (eng, path, level, ref, text, note, tech) in sorted(CHECKS.items()):
        if not os.path.exists(os.path.join(HERE, path)):
            continue
        served.setdefault(eng, []).append(pid)
        checks.append({
            'property_id': pid,
            'quick_cmd': './check %s --tier quick' % pid,
            'thorough_cmd': './check %s --tier thorough' % pid,
            'evidence_file': 'evidence/%s.json' % pid,
            'replay_cmd_template': './check --replay {path}',
            'engine': eng,
            'level_claimed': {'category': level, 'text': text, 'design_ref': 'DESIGN.md section ' + ref},
            'level_note': note,
            'technique': tech,
        })
    na = [{'property_id': k, 'reason': v} for k, v in sorted(NA.items())]
    for pid, v in sorted(CHECKS.items()):
        if pid not in [c['property_id'] for c in checks]:
            na.append({'property_id': pid, 'reason': 'check not built yet (planned, DESIGN.md section 6); not claimed in this commit'})
    m = {
        'version': 1,
        'setup_cmd': '/venv/bin/python -m refmodel.selftest && /venv/bin/python -c "import sys; sys.path.insert(0, \'/repo\'); import pytoniq_core, nacl, bitarray, x25519, Cryptodome"',
        'hooks': {
            'guard': 'PYTONIQ_CORE_VERIF',
            'enable': 'no source hook exists: every seam (os.urandom, os.listdir, nacl/Cryptodome RNG, sys.settrace step clock) is patched from the harness; the guard variable is reserved and unused',
            'baseline_off_cmd': 'cd /repo && /venv/bin/python -m pytest -ra -q -p no:cacheprovider --timeout=900 --continue-on-collection-errors',
            'source_commits': [],
            'add_only': True,
        },
        'engines': [{'name': e, 'path': p, 'serves_properties': served.get(e, []),
                     'kind_free_text': 'deterministic-simulation world on the detsim kernel (seeded PRNG, trace=replay, ddmin)'}
                    for e, p in sorted(ENGINES.items()) if os.path.exists(os.path.join(HERE, p))],
        'checks': checks,
        'not_applicable': sorted(na, key=lambda x: x['property_id']),
        'notes': 'One CLI: ./check <id> --tier quick|thorough; ./check --replay <file>. Exit 0 held / known findings only, 1 violation, 2 harness error. '
                 'Honours VERIF_SEED, VERIF_TIER, VERIF_REPO, VERIF_WORKERS. Known findings: known_findings.json.',
    }
    with open(os.path.join(HERE, 'MANIFEST.json'), 'w') as f:
        json.dump(m, f, indent=1)
    print('MANIFEST: %d checks, %d not applicable' % (len(checks), len(na)))


if __name__ == '__main__':
    main()
