#!/venv/bin/python
"""Confirm and evaluate a seeded change produced by a sub-agent.

  try_seeded.py <worktree> <seed-id> <property> [more properties...]
1. in the worktree: 51 tests pass with the change; demo fails with it and passes without it;
2. store patch.diff + demo.py + meta.json under /verif/seeded/<seed-id>/;
3. apply the patch to a scratch copy of /repo HEAD (VERIF_REPO), run the quick checks of the given properties, delete the copy.
"""
import json
import os
import shutil
import subprocess
import sys
import time

HERE = os.path.dirname(os.path.dirname(os.path.abspath(__file__)))


def sh(cmd, cwd=None, timeout=900):
    p = subprocess.run(cmd, shell=True, cwd=cwd, capture_output=True, text=True, timeout=timeout)
    return p.returncode, (p.stdout + p.stderr)


def main():
    wt, sid, props = sys.argv[1], sys.argv[2], sys.argv[3:]
    dst = os.path.join(HERE, 'seeded', sid)
    meta = {'id': sid, 'property': props[0], 'checked_against': props}
    if os.path.isdir(wt):
        rc, out = sh('git -C %s diff -- pytoniq_core > %s/patch.diff' % (wt, wt))
        rc, tests = sh('/venv/bin/python -m pytest -q -p no:cacheprovider tests 2>&1 | tail -1', cwd=wt)
        rc_fail, demo_fail = sh('/venv/bin/python demo.py 2>&1 | tail -5', cwd=wt)
        rc_fail = sh('/venv/bin/python demo.py > /dev/null 2>&1', cwd=wt)[0]
        sh('git -C %s apply -R patch.diff' % wt)
        rc_pass = sh('/venv/bin/python demo.py > /dev/null 2>&1', cwd=wt)[0]
        sh('git -C %s apply patch.diff' % wt)
        meta.update(tests_with_change=tests.strip(), demo_exit_with_change=rc_fail, demo_exit_without_change=rc_pass, demo_tail=demo_fail.strip()[-400:])
        print('tests:', tests.strip(), '| demo with change exit', rc_fail, '| without', rc_pass)
        if 'passed' not in tests or 'failed' in tests or rc_fail == 0 or rc_pass != 0:
            print('NOT CONFIRMED - not keeping')
            return 1
        os.makedirs(dst, exist_ok=True)
        shutil.copy(os.path.join(wt, 'patch.diff'), dst)
        shutil.copy(os.path.join(wt, 'demo.py'), dst)
    patch = os.path.join(dst, 'patch.diff')
    # the checks run against a scratch copy of /repo's HEAD with the patch applied (VERIF_REPO), so that
    # background runs that use /repo itself are not disturbed; /repo is never touched
    scratch = '/var/tmp/verif_try_%d' % os.getpid()
    shutil.rmtree(scratch, ignore_errors=True)
    os.makedirs(scratch)
    rc, out = sh('git -C /repo archive HEAD | tar -x -C %s' % scratch)
    rc, out = sh('patch -p1 -s -i %s' % patch, cwd=scratch)
    if rc != 0:
        print('patch does not apply to /repo HEAD:', out)
        meta['applies_to_repo_head'] = False
        json.dump(meta, open(os.path.join(dst, 'meta.json'), 'w'), indent=1)
        shutil.rmtree(scratch, ignore_errors=True)
        return 1
    results = {}
    try:
        for p in props:
            t0 = time.time()
            rc, out = sh('VERIF_REPO=%s ./check %s --tier quick --no-evidence' % (scratch, p), cwd=HERE, timeout=1800)
            sigs = [l.split()[1] for l in out.splitlines() if l.startswith('SIGNATURE ')]
            results[p] = {'exit': rc, 'signatures': sigs[:6], 'wall_s': round(time.time() - t0, 1)}
            print(p, 'exit', rc, sigs[:4], '%.0fs' % (time.time() - t0))
            if rc == 2:
                print(out[-1500:])
    finally:
        shutil.rmtree(scratch, ignore_errors=True)
    meta['quick_check_results'] = results
    meta['caught_by'] = [p for p, r in results.items() if r['exit'] == 1]
    old = {}
    mp = os.path.join(dst, 'meta.json')
    if os.path.exists(mp):
        old = json.load(open(mp))
    old.update(meta)
    json.dump(old, open(mp, 'w'), indent=1)
    return 0


if __name__ == '__main__':
    sys.exit(main())
