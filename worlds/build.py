"""BUILD world (C06, C07): store/peek/load histories on Builder and Slice vs a bit-exact model.

Every op is one JSON object.  Object references are indices taken modulo the number of live
objects of that kind at execution time, so any sub-list of a trace is still executable.  What
the model expects (fits? in range? which value?) is computed at execution time from the op's
concrete arguments and the model state, never from the generator's intention.
"""
from detsim.core import HistoryWorld, Violation, StopRun
from refmodel import tlb, hashmap
from refmodel.rcell import RCell, RCellError, bytes_to_bits
from .common import (call, call_shallow, to01, tvm_bits, lib_cell_from_rcell, rcell_from_lib, struct_diff, addr_tuple,
                     Cell, Builder, Slice, Address, ExternalAddress, bitarray)

UINT_WIDTHS = [1, 2, 3, 7, 8, 9, 15, 16, 17, 31, 32, 33, 63, 64, 65, 127, 128, 255, 256]
SNAKE_LENS = [0, 1, 2, 126, 127, 128, 129, 254, 255, 1000, 1024, 10000]


class St:
    def __init__(self):
        self.builders = []
        self.cells = []
        self.slices = []
        self.by_id = {}
        self.queue = []
        self.log = []
        self.round = 0

    def add_cell(self, libcell, twin):
        self.cells.append({'lib': libcell, 'twin': twin})
        self.by_id[id(libcell)] = len(self.cells) - 1
        return len(self.cells) - 1

    def handle_of(self, libcell):
        h = self.by_id.get(id(libcell))
        if h is not None and self.cells[h]['lib'] is libcell:
            return h
        try:
            twin = rcell_from_lib(libcell)
        except RCellError:
            raise StopRun()
        return self.add_cell(libcell, twin)


def pick(lst, i):
    return lst[i % len(lst)] if lst else None


# ---------------------------------------------------------------------------------------
# model of typed values
# ---------------------------------------------------------------------------------------

def resolve(st, op):
    """Resolve the op's object indices once (the pool may grow while the model registers children)."""
    r = {}
    if op.get('c') is not None and st.cells:
        r['c'] = op['c'] % len(st.cells)
    if op.get('s') is not None and st.slices:
        r['s'] = op['s'] % len(st.slices)
    return r


def model_encode(st, op, r=None):
    """-> (bits, ref_handles) or raises tlb.EncodeError when the value has no such encoding."""
    t = op['t']
    if r is None:
        r = resolve(st, op)
    if t == 'uint':
        return tlb.enc_uint(op['v'], op['n']), []
    if t == 'int':
        return tlb.enc_int(op['v'], op['n']), []
    if t == 'var_uint':
        return tlb.enc_var_uint(op['v'], op['n']), []
    if t == 'var_int':
        return tlb.enc_var_int(op['v'], op['n']), []
    if t == 'coins':
        return tlb.enc_coins(op['v']), []
    if t in ('bit', 'bool'):
        return ('1' if op['v'] else '0'), []
    if t == 'bits':
        return op['v'], []
    if t == 'bytes':
        return tlb.enc_bytes(bytes.fromhex(op['v'])), []
    if t == 'string':
        return tlb.enc_bytes(op['v'].encode()), []
    if t == 'address':
        k = op['k']
        if k == 'none':
            return tlb.enc_addr_none(), []
        if k == 'ext':
            return tlb.enc_addr_extern(op['v'], op['n']), []
        any_ = tuple(op['any']) if op.get('any') else None
        return tlb.enc_addr_std(op['wc'], bytes.fromhex(op['acc']), any_), []
    if t in ('maybe_ref', 'dict'):
        if 'c' not in r:
            return '0', []
        return '1', [r['c']]
    if t == 'ref':
        return '', [r['c']]
    if t == 'cell':
        e = st.cells[r['c']]
        return e['twin'].bits, [st.handle_of(x) for x in e['lib'].refs]
    if t == 'slice':
        s = st.slices[r['s']]
        return s['bits'], list(s['refs'])
    raise AssertionError(t)


def value_class(op):
    t = op['t']
    if t == 'var_int':
        v = op['v']
        if v != 0 and tlb.var_int_bytes(v) != (abs(v).bit_length() + 7) // 8:
            return 'minimal-length-top-bit-set'
        return 'plain'
    if t == 'address':
        return op['k'] + ('-anycast' if op.get('any') else '')
    if t == 'slice':
        return 'slice'
    return t


LAZY_FORMS = ('list', 'gen', 'iter', 'map')


def snake_data(op):
    """Payload of a snake store: spelled out, or (for the very long ones) regenerated from a seed so that traces stay small."""
    if 'vgen' in op:
        import random as _r
        seed, n = op['vgen']
        return _r.Random(seed).randbytes(n)
    return bytes.fromhex(op['v'])


def lib_store(st, be, op, r=None):
    """(ok, result) of the store.  Argument objects (ExternalAddress, Address ...) are built on the way: an implementation that
    refuses an unstorable value in the argument's constructor rather than in the store has refused the store all the same."""
    try:
        return _lib_store(st, be, op, r)
    except AssertionError:
        raise
    except Exception as e:   # raised while the argument was being constructed
        return False, e


def _lib_store(st, be, op, r=None):
    b = be['lib']
    t = op['t']
    if r is None:
        r = resolve(st, op)
    if t == 'uint':
        return call(b.store_uint, op['v'], op['n'])
    if t == 'int':
        return call(b.store_int, op['v'], op['n'])
    if t == 'var_uint':
        return call(b.store_var_uint, op['v'], op['n'])
    if t == 'var_int':
        return call(b.store_var_int, op['v'], op['n'])
    if t == 'coins':
        return call(b.store_coins, op['v'])
    if t == 'bit':
        form = op.get('form', 'int')
        v = op['v']
        return call(b.store_bit, {'int': int(v), 'bool': bool(v), 'str': str(int(v)), 'tvm': tvm_bits(str(int(v)))}.get(form, int(v)))
    if t == 'bool':
        return call(b.store_bool, bool(op['v']))
    if t == 'bits':
        form = op.get('form', 'str')
        v = op['v']
        if form in LAZY_FORMS:
            # the argument is annotated Iterable[int]: a list, or a lazy iterable that has no length to ask for
            ints = [int(ch) for ch in v]
            arg = {'list': lambda: ints, 'gen': lambda: (x for x in ints), 'iter': lambda: iter(ints), 'map': lambda: map(int, v)}[form]()
        else:
            arg = v if form == 'str' else (bitarray(v) if form == 'bitarray' else (tvm_bits(v) if len(v) <= 1023 else bitarray(v)))
        return call(b.store_bits, arg)
    if t == 'bytes':
        return call(b.store_bytes, bytes.fromhex(op['v']))
    if t == 'string':
        return call(b.store_string, op['v'])
    if t == 'snake_bytes':
        data = snake_data(op)
        return (call_shallow if len(data) > 100000 else call)(b.store_snake_bytes, data)
    if t == 'snake_string':
        if op.get('prefix'):
            return call(b.store_snake_string, op['v'], True)
        return call(b.store_snake_string, op['v'])
    if t == 'address':
        k = op['k']
        if k == 'none':
            return call(b.store_address, None)
        form = op.get('form')
        if k == 'ext':
            v, n = op['v'], op['n']
            if form == 'bytes' and v >= 0:
                ea = ExternalAddress(v.to_bytes((n + 7) // 8, 'big'), n)
            elif form == 'hex' and v >= 0:
                ea = ExternalAddress(v.to_bytes((n + 7) // 8, 'big').hex(), n)
            elif form == 'auto' and v >= 0 and v.bit_length() == n:
                ea = ExternalAddress(v)
            else:
                ea = ExternalAddress(v, n)
            held = getattr(st, 'held_ext', None)
            if held is not None and form in (None, 'int', 'obj') and (v + n) % 3 == 0:
                # the caller keeps ONE external-address object and updates its (public) fields between stores
                try:
                    held.external_address, held.len = ea.external_address, ea.len
                    ea = held
                except Exception:
                    pass
            elif form in (None, 'int', 'obj'):
                st.held_ext = ea
            if form == 'to_cell':
                return call(lambda: b.store_slice(ea.to_cell().begin_parse()))
            return call(b.store_address, ea)
        a = Address((op['wc'], bytes.fromhex(op['acc'])))
        if op.get('any'):
            a.set_anycast(op['any'][0], op['any'][1])
        if form == 'str' and not op.get('any'):
            return call(b.store_address, a.to_str(is_user_friendly=False))
        if form == 'friendly' and not op.get('any'):
            return call(b.store_address, a.to_str())
        if form == 'to_cell' and not op.get('any'):
            # Address.to_cell() is a helper outside the builder: it is only used where its output is the address's
            # full encoding (no anycast); what it does with anycast is not C06's subject
            return call(lambda: b.store_slice(a.to_cell().begin_parse()))
        return call(b.store_address, a)
    if t in ('maybe_ref', 'dict'):
        c = None if 'c' not in r else st.cells[r['c']]['lib']
        return call(b.store_maybe_ref if t == 'maybe_ref' else b.store_dict, c)
    if t == 'ref':
        return call(b.store_ref, st.cells[r['c']]['lib'])
    if t == 'cell':
        return call(b.store_cell, st.cells[r['c']]['lib'])
    if t == 'slice':
        return call(b.store_slice, st.slices[r['s']]['lib'])
    raise AssertionError(t)


# decoding side ---------------------------------------------------------------------------

class _Any:
    """Expected value that is not compared (the consumption still is)."""
    def __eq__(self, other):
        return True

    def __ne__(self, other):
        return False

    def __repr__(self):
        return '<any>'


ANY = _Any()
OVER = ('over',)
UNDEF = ('undef',)


def model_decode(st, se, op):
    """('ok', comparable value, nbits, nrefs) | OVER (must raise) | UNDEF (nothing asserted)."""
    bits, refs = se['bits'], se['refs']
    t = op['t']
    n = op.get('n', 0)

    def need(k):
        return k > len(bits)

    if t in ('uint', 'int'):
        if n < 1:
            return UNDEF
        if need(n):
            return OVER
        return ('ok', tlb.dec_uint(bits[:n]) if t == 'uint' else tlb.dec_int(bits[:n]), n, 0)
    if t in ('var_uint', 'var_int', 'coins'):
        lb = 4 if t == 'coins' else n
        if lb < 1:
            return UNDEF
        if need(lb):
            return OVER
        ln = tlb.dec_uint(bits[:lb])
        if need(lb + 8 * ln):
            return OVER
        if ln == 0:
            return ('ok', 0, lb, 0)
        body = bits[lb:lb + 8 * ln]
        return ('ok', tlb.dec_int(body) if t == 'var_int' else tlb.dec_uint(body), lb + 8 * ln, 0)
    if t == 'bit':
        return OVER if need(1) else ('ok', int(bits[0]), 1, 0)
    if t == 'bool':
        return OVER if need(1) else ('ok', bits[0] == '1', 1, 0)
    if t in ('bits', 'skip'):
        if n < 0:
            return UNDEF
        return OVER if need(n) else ('ok', bits[:n], n, 0)
    if t == 'bytes':
        if n < 0:
            return UNDEF
        return OVER if need(8 * n) else ('ok', _bytes(bits[:8 * n]), 8 * n, 0)
    if t == 'string':
        if n <= 0:
            n = len(bits) // 8
        if need(8 * n):
            return OVER
        raw = _bytes(bits[:8 * n])
        try:
            return ('ok', raw.decode(), 8 * n, 0)
        except UnicodeDecodeError:
            return UNDEF
    if t in ('snake_bytes', 'snake_string'):
        if len(bits) % 8 or len(refs) > 1:
            return UNDEF
        data = _bytes(bits)
        if refs:
            rest = tlb.read_snake(st.cells[refs[0]]['twin'])
            if rest is None:
                return UNDEF
            data += rest
        if t == 'snake_string':
            try:
                data = data.decode()
            except UnicodeDecodeError:
                return UNDEF
        return ('ok', data, len(bits), len(refs))
    if t == 'address':
        if need(2):
            return OVER
        tag = bits[:2]
        if tag == '00':
            return ('ok', None, 2, 0)
        if tag == '01':
            if need(11):
                return OVER
            ln = tlb.dec_uint(bits[2:11])
            if ln == 0:
                return UNDEF  # zero-length external address: carve-out
            if need(11 + ln):
                return OVER
            return ('ok', ('ext', tlb.dec_uint(bits[11:11 + ln]), ln), 11 + ln, 0)
        if tag == '11':
            return UNDEF  # addr_var is documented as unsupported
        p = 3
        any_ = None
        if need(3):
            return OVER
        if bits[2] == '1':
            if need(8):
                return OVER
            d = tlb.dec_uint(bits[3:8])
            if d < 1 or d > 30:
                return UNDEF
            if need(8 + d):
                return OVER
            any_ = (d, tlb.dec_uint(bits[8:8 + d]))
            p = 8 + d
        if need(p + 264):
            return OVER
        wc = tlb.dec_int(bits[p:p + 8])
        acc = _bytes(bits[p + 8:p + 264])
        return ('ok', ('std', wc, acc, any_), p + 264, 0)
    if t == 'ref':
        return OVER if not refs else ('ok', refs[0], 0, 1)
    if t in ('maybe_ref', 'dict'):
        if need(1):
            return OVER
        if bits[0] == '0':
            return ('ok', None, 1, 0)
        if not refs:
            return OVER
        if t == 'dict':
            if st.cells[refs[0]]['twin'].special:
                # a dictionary field whose root arrived as an exotic cell (pruned in a proof, a library reference): there is nothing
                # to compare the VALUE with, but the field still is one bit and one reference - what follows it must be read from
                # the right place
                return ('ok', ANY, 1, 1)
            if getattr(st, 'dict_width', {}).get(refs[0]) != n:
                # a cell that was not stored as a dictionary of this key width: reading it as one is not 'loading back what was
                # stored' (and a non-canonical reading of its bits is C10's subject) - the value is not compared
                return UNDEF
            try:
                parsed = hashmap.parse_hashmap(st.cells[refs[0]]['twin'], n)
            except Exception:
                return UNDEF
            return ('ok', {int(k, 2): v[0] for k, v in parsed.items()}, 1, 1)
        return ('ok', refs[0], 1, 1)
    raise AssertionError(t)


def _bytes(bits):
    return int(bits, 2).to_bytes(len(bits) // 8, 'big') if bits else b''


PEEKABLE = {'uint', 'int', 'var_uint', 'var_int', 'coins', 'bit', 'bool', 'bits', 'bytes', 'string', 'address', 'ref', 'maybe_ref', 'dict'}


def lib_load(se, op):
    s = se['lib']
    t = op['t']
    n = op.get('n', 0)
    pre = 'preload_' if op.get('peek') else 'load_'
    if t in ('uint', 'int', 'var_uint', 'var_int', 'bits', 'bytes', 'string'):
        return call(getattr(s, pre + t), n)
    if t == 'dict':
        return call(getattr(s, pre + 'dict'), n)
    if t == 'skip':
        return call(s.skip_bits, n)
    if t in ('snake_bytes', 'snake_string'):
        return call_shallow(getattr(s, pre + t))     # a long chain: from the bottom of an empty stack (see call_shallow)
    return call(getattr(s, pre + t))


def lib_value(st, t, v):
    """Comparable form of what the library returned."""
    if t in ('uint', 'int', 'var_uint', 'var_int', 'coins'):
        return v if type(v) is int else ('not-int', repr(v))
    if t == 'bit':
        return int(v) if v in (0, 1) else ('not-bit', repr(v))
    if t == 'bool':
        return v if isinstance(v, bool) else ('not-bool', repr(v))
    if t == 'bits':
        return to01(v)
    if t in ('bytes', 'snake_bytes'):
        return bytes(v)
    if t in ('string', 'snake_string'):
        return v
    if t == 'address':
        return addr_tuple(v)
    if t == 'dict':
        if v is None:
            return None
        return {k: to01(s.bits) for k, s in v.items()}
    return v


# ---------------------------------------------------------------------------------------
# the world
# ---------------------------------------------------------------------------------------

class BuildWorld(HistoryWorld):
    run_timeout = 20   # slowest legitimate run is well under 0.2 s
    name = 'BUILD'
    legs = {'quick': [('main', 40000)], 'thorough': [('main', 1500000)]}
    budget = {'quick': 100, 'thorough': 1500}
    chunk = 60
    real_code = ['pytoniq_core.boc.builder.Builder (all store_*)', 'pytoniq_core.boc.slice.Slice (all load_*/preload_*)',
                 'pytoniq_core.boc.cell.Cell', 'pytoniq_core.boc.tvm_bitarray.TvmBitarray', 'pytoniq_core.boc.address.Address/ExternalAddress']
    stubs = ['bit-exact builder/slice model (refmodel.tlb)', 'RCell twins of every cell', 'reference Hashmap builder/parser for dictionary cells']

    def rule(self):
        if self.prop == 'C06':
            return ('Each run = rounds of [new builder, typed stores that fit (value classes forced: every width end, var-int byte-length '
                    'classes with top bit set, coins ends, snake lengths 0..10k at several fill levels, address forms incl. anycast, maybe-ref, '
                    'dict), end_cell, begin_parse, then per stored item an optional non-consuming peek and the consuming load]. Oracle per step: '
                    'builder bits == model bits, peek == load == stored value, peek consumes nothing, remaining bits/refs == model. '
                    'Non-trivial = at least one boundary class probe fired; distinct = distinct (op-kind sequence, probe set). '
                    'The content dimension (which integers / bit strings) is plain seeded sampling; the simulator contributes the history dimension.')
        return ('Each run = a history of store/end_cell/parse/load ops aimed AT the limits by a generator that reads the model fill level: '
                'need = remaining, remaining+1 bits; 4th/5th reference via every composite store; values one outside each range end; reads of '
                'remaining and remaining+1 bits/refs/bytes through slices obtained by every route incl. plain-bitarray cells; depth 1023/1024 chains; '
                'builders keep being used after a refused store (model re-synchronised). Oracle: fits&in-range => not refused; else => refused; '
                'every produced cell within 1023 bits/4 refs/depth 1023; over-read => raises. Non-trivial = a limit probe fired; '
                'distinct = distinct (op-kind sequence, probe set).')

    def assumptions(self):
        return ['reference TL-B encoders in refmodel/tlb.py (validated by refmodel/selftest.py) are the trusted base',
                'fault-free history refinement ((M) in DESIGN.md): no fault is injected; refused operations are the only error paths',
                'carve-outs: zero-width integers, zero-length addr_extern, partial writes left by a refused composite store, peeks past the end, addr_var']

    def make_config(self, rng, leg, run_index):
        return {'steps': rng.choice([20, 40, 60, 80]), 'deep': (run_index % 50 == 7), 'dict_every': rng.choice([0, 3]),
                'pruned_deep': (run_index % 25 == 13)}

    def new_state(self, ctx):
        st = St()
        st.cfg = ctx.cfg
        return st

    # ---------------- generation ----------------
    def gen_op(self, st, ctx):
        if st.queue:
            return st.queue.pop(0)
        rng = ctx.rng
        if self.prop == 'C06':
            self._gen_round_c06(st, rng)
        else:
            self._gen_c07(st, rng)
        return st.queue.pop(0) if st.queue else None

    def _aux_cell_op(self, st, rng):
        """An op creating an auxiliary cell (to be referenced / stored as cell / dict)."""
        kind = rng.random()
        if kind < 0.25:
            n = rng.choice([1, 2, 8, 32, 256])
            m = {}
            for _ in range(rng.randint(1, 4)):
                m[rng.getrandbits(n)] = rng.getrandbits(rng.choice([1, 8, 16]))
            return {'op': 'aux_dict', 'n': n, 'm': sorted([k, v] for k, v in m.items()), 'vw': 16}
        nb = rng.choice([0, 1, 7, 8, 9, 100, 1023, rng.randint(0, 1023)])
        return {'op': 'aux_cell', 'bits': _rbits(rng, nb), 'refs': [rng.randrange(1 << 16) for _ in range(rng.choice([0, 0, 1, 2, 4]))]}

    def _gen_value(self, st, rng, t, room_bits, room_refs):
        """A store op of type t whose encoding fits (room_bits, room_refs), or None."""
        op = {'op': 'store', 'b': len(st.builders) - 1 + self._pending_builders(st), 't': t}
        if t == 'uint':
            n = rng.choice(UINT_WIDTHS + [rng.randint(1, 256)])
            n = min(n, room_bits)
            if n < 1:
                return None
            op.update(n=n, v=rng.choice([0, (1 << n) - 1, 1 << (n - 1), rng.getrandbits(n)]))
        elif t == 'int':
            n = rng.choice(UINT_WIDTHS + [257, rng.randint(1, 257)])
            n = min(n, room_bits)
            if n < 1:
                return None
            op.update(n=n, v=rng.choice([-(1 << (n - 1)), (1 << (n - 1)) - 1, -1, 0, rng.getrandbits(n) - (1 << (n - 1))]))
        elif t in ('var_uint', 'var_int', 'coins'):
            lb = 4 if t == 'coins' else rng.choice([2, 3, 4, 5])
            maxb = min((1 << lb) - 1, (room_bits - lb) // 8)
            if maxb < 0:
                return None
            nb = rng.choice([0, 1, 2, maxb, rng.randint(0, maxb)])
            nb = min(nb, maxb)
            if t == 'var_int':
                if nb == 0:
                    v = 0
                else:
                    lo, hi = -(1 << (8 * nb - 1)), (1 << (8 * nb - 1)) - 1
                    in_lo = -(1 << (8 * (nb - 1) - 1)) - 1 if nb > 1 else -1   # largest magnitude needing nb bytes on the negative side
                    in_hi = (1 << (8 * (nb - 1) - 1)) if nb > 1 else 1         # smallest positive needing nb bytes
                    v = rng.choice([lo, hi, in_lo, in_hi, rng.randint(in_hi, hi), rng.randint(lo, in_lo)])
                    if tlb.var_int_bytes(v) > maxb:
                        v = hi
            else:
                v = 0 if nb == 0 else rng.choice([(1 << (8 * nb)) - 1, 1 << (8 * (nb - 1)), rng.randint(1 << (8 * (nb - 1)), (1 << (8 * nb)) - 1)])
            op.update(v=v)
            if t != 'coins':
                op['n'] = lb
        elif t == 'bit':
            if room_bits < 1:
                return None
            op.update(v=rng.getrandbits(1), form=rng.choice(['int', 'bool', 'str', 'tvm']))
        elif t == 'bool':
            if room_bits < 1:
                return None
            op.update(v=rng.getrandbits(1))
        elif t == 'bits':
            n = min(room_bits, rng.choice([0, 1, 7, 8, 9, 64, rng.randint(0, 300)]))
            op.update(v=_rbits(rng, n), form=rng.choice(['str', 'bitarray', 'tvm']))
        elif t == 'bytes':
            n = min(room_bits // 8, rng.choice([0, 1, 2, 32, rng.randint(0, 127)]))
            op.update(v=bytes(rng.getrandbits(8) for _ in range(n)).hex())
        elif t == 'string':
            n = min(room_bits // 8, rng.choice([1, 2, 5, 32, 127]))
            if n < 1:
                return None
            op.update(v=_rtext(rng, n))
        elif t == 'address':
            k = rng.choice(['none', 'ext', 'std', 'std', 'std-any'])
            if k == 'none':
                if room_bits < 2:
                    return None
                op.update(k='none')
            elif k == 'ext':
                ln = min(room_bits - 11, rng.choice([1, 8, 9, 255, 256, 511, rng.randint(1, 511)]))
                if ln < 1:
                    return None
                op.update(k='ext', n=ln, v=rng.choice([0, (1 << ln) - 1, rng.getrandbits(ln), rng.getrandbits(ln) | (1 << (ln - 1))]),
                          form=rng.choice(['int', 'int', 'bytes', 'hex', 'auto', 'to_cell']))
            else:
                any_ = None
                need = 267
                if k == 'std-any':
                    d = rng.choice([1, 2, 5, 30, rng.randint(1, 30)])
                    any_ = [d, rng.getrandbits(d)]
                    need = 267 + 5 + d
                if room_bits < need:
                    return None
                op.update(k='std', wc=rng.choice([-128, -1, 0, 1, 127, rng.randint(-128, 127)]),
                          acc=bytes(rng.getrandbits(8) for _ in range(32)).hex(), any=any_, form=rng.choice(['obj', 'obj', 'str', 'friendly', 'to_cell']))
                # the same account turns up again and again in real data, with and without anycast
                seen = getattr(st, 'accounts_seen', None)
                if seen is None:
                    seen = st.accounts_seen = []
                if seen and rng.random() < 0.4:
                    op['wc'], op['acc'] = rng.choice(seen)
                else:
                    seen.append((op['wc'], op['acc']))
                    del seen[:-8]
        elif t in ('maybe_ref', 'dict', 'ref'):
            if t != 'ref' and room_bits < 1:
                return None
            if t == 'ref' or rng.random() < 0.7:
                if room_refs < 1:
                    if t == 'ref':
                        return None
                    op.update(c=None)
                else:
                    op.update(c=rng.randrange(1 << 16))
            else:
                op.update(c=None)
        return op

    def _pending_builders(self, st):
        return sum(1 for o in st.queue if o['op'] == 'new_builder')

    def _gen_round_c06(self, st, rng):
        q = st.queue
        # auxiliary cells first, so that references are meaningful
        need_aux = max(0, 3 - len(st.cells))
        for _ in range(need_aux + (rng.random() < 0.3)):
            q.append(self._aux_cell_op(st, rng))
        if rng.random() < 0.25:
            # an exotic cell among the cells that can be referenced (optional references and dictionaries may point at one)
            q.append({'op': 'aux_pruned', 'h': bytes(rng.getrandbits(8) for _ in range(32)).hex(), 'd': rng.choice([0, 1, 5, 300])})
        ncells_after = len(st.cells) + sum(1 for o in q if o['op'] in ('aux_cell', 'aux_dict', 'aux_pruned'))
        q.append({'op': 'new_builder'})
        bidx = len(st.builders)
        room_bits, room_refs = 1023, 4
        items = []
        types = ['uint', 'int', 'var_uint', 'var_int', 'coins', 'bit', 'bool', 'bits', 'bytes', 'string', 'address', 'maybe_ref', 'ref', 'dict']
        enabled = rng.sample(types, rng.randint(3, len(types)))
        k = rng.randint(1, 14)
        # cells known to be dictionaries (index in the future pool)
        for _ in range(k):
            t = rng.choice(enabled)
            op = self._gen_value(st, rng, t, room_bits, room_refs)
            if op is None:
                continue
            op['b'] = bidx
            if t == 'dict' and op.get('c') is not None:
                # reference a dictionary cell created just now so that load_dict is meaningful
                n = rng.choice([1, 2, 8, 32, 256])
                m = {}
                for _ in range(rng.randint(1, 4)):
                    m[rng.getrandbits(n)] = rng.getrandbits(16)
                pos = max(i for i, o in enumerate(q) if o['op'] == 'new_builder' and True)
                if rng.random() < 0.15:
                    # ... or a dictionary whose root is an exotic cell (what a proof holds where a dictionary was pruned)
                    q.insert(pos, {'op': 'aux_pruned', 'h': '%064x' % rng.getrandbits(256), 'd': rng.choice([0, 1, 7, 300])})
                else:
                    q.insert(pos, {'op': 'aux_dict', 'n': n, 'm': sorted([a, b] for a, b in m.items()), 'vw': 16})
                op['c'] = ncells_after
                op['kn'] = n
                ncells_after += 1
            # account
            shadow = _ShadowSt(st, ncells_after)
            try:
                bits_len, nrefs = shadow.size_of(op)
            except tlb.EncodeError:
                continue
            if bits_len > room_bits or nrefs > room_refs:
                continue
            room_bits -= bits_len
            room_refs -= nrefs
            q.append(op)
            items.append(op)
        # optional trailing snake / empty string
        tail = rng.random()
        if tail < 0.35:
            ln = rng.choice(SNAKE_LENS + [rng.randint(0, 400)])
            avail = room_bits // 8
            if room_refs >= 1 and rng.random() < 0.04:
                # 'of any length': as long as a chain of cells can be (1023 cells of 127 bytes below the one being built)
                k = rng.choice([900, 985, 989, 990, 991, 1000, 1010, 1022, 1023])
                op = {'op': 'store', 'b': bidx, 't': 'snake_bytes', 'vgen': [rng.getrandbits(32), avail + 127 * k - rng.choice([0, 0, 1, 126])]}
                q.append(op)
                items.append(op)
            elif ln <= avail or room_refs >= 1:
                if rng.random() < 0.5:
                    op = {'op': 'store', 'b': bidx, 't': 'snake_bytes', 'v': bytes(rng.getrandbits(8) for _ in range(ln)).hex()}
                else:
                    op = {'op': 'store', 'b': bidx, 't': 'snake_string', 'v': _rtext(rng, ln)}
                    if rng.random() < 0.3 and (ln + 1 <= avail or room_refs >= 1):
                        op['prefix'] = True
                q.append(op)
                items.append(op)
        q.append({'op': 'end_cell', 'b': bidx})
        q.append({'op': 'begin_parse', 'c': ncells_after, 'route': rng.choice(['begin_parse', 'to_slice', 'from_cell', 'builder_to_slice', 'copy'])
                  , 'b': bidx})
        sidx = len(st.slices)
        for op in items:
            t = op['t']
            ld = {'op': 'load', 's': sidx, 't': t}
            if t in ('uint', 'int', 'var_uint', 'var_int'):
                ld['n'] = op['n']
            elif t == 'bits':
                ld['n'] = len(op['v'])
            elif t == 'bytes':
                ld['n'] = len(op['v']) // 2
            elif t == 'string':
                ld['n'] = len(op['v'].encode())
            elif t == 'dict':
                ld['n'] = op.get('kn', 8)
            if t in PEEKABLE and rng.random() < 0.5:
                pk = dict(ld)
                pk['peek'] = True
                q.append(pk)
            q.append(ld)

    # C07: one aimed action at a time, generated from the live model
    def _gen_c07(self, st, rng):
        q = st.queue
        if len(st.cells) < 3:
            q.append(self._aux_cell_op(st, rng))
            return
        if not st.builders:
            q.append({'op': 'new_builder'})
            return
        if st.cfg.get('deep') and not getattr(st, 'deep_done', False):
            st.deep_done = True
            q.append({'op': 'deep_chain', 'n': rng.choice([1022, 1023, 1024, 1030])})
            q.append({'op': 'new_builder'})
            q.append({'op': 'store', 'b': len(st.builders), 't': 'ref', 'c': len(st.cells)})
            q.append({'op': 'end_cell', 'b': len(st.builders)})
            return
        if st.cfg.get('pruned_deep') and not getattr(st, 'pruned_done', False):
            # a pruned branch records the depth of the subtree it stands for: the limit applies to that depth as well
            st.pruned_done = True
            d = rng.choice([400, 1000, 1021, 1022, 1022, 1023, 1023])
            q.append({'op': 'aux_pruned', 'd': d, 'h': '%064x' % rng.getrandbits(256)})
            base = len(st.cells)
            if d < 1021:
                q.append({'op': 'deep_chain', 'n': 1023 - d + rng.choice([-1, 0, 1, 5]), 'base': base})
            nb = len(st.builders)
            for lvl in range(rng.choice([1, 2, 3])):
                q.append({'op': 'new_builder'})
                if rng.random() < 0.5:
                    q.append({'op': 'store', 'b': nb, 't': 'ref', 'c': rng.randrange(max(1, base))})   # a shallow sibling first
                q.append({'op': 'store', 'b': nb, 't': 'ref', 'c': len(st.cells) + (1 if d < 1021 else 0) + lvl if lvl or d < 1021 else base})
                q.append({'op': 'end_cell', 'b': nb})
                nb += 1
            return
        r = rng.random()
        bi = len(st.builders) - 1 if rng.random() < 0.8 else rng.randrange(len(st.builders))
        be = st.builders[bi]
        rem = 1023 - len(be['bits'])
        rrem = 4 - len(be['refs'])
        if r < 0.07:
            q.append({'op': 'new_builder'})
        elif r < 0.10:
            q.append(self._aux_cell_op(st, rng))
        elif r < 0.12:
            # the builder's public bits / refs properties are settable: assigning and finishing is a builder operation too
            if rng.random() < 0.6:
                q.append({'op': 'assign_finish', 'b': bi, 'what': 'refs', 'refs': [rng.randrange(1 << 16) for _ in range(rng.choice([0, 3, 4, 5, 5, 6, 9]))]})
            else:
                q.append({'op': 'assign_finish', 'b': bi, 'what': 'bits', 'bits': _rbits(rng, rng.choice([0, 1016, 1023, 1024, 1025, 1031, 1100, 2040])), 'plain': rng.random() < 0.5})
        elif r < 0.62:
            self._gen_aimed_store(st, rng, bi, rem, rrem)
        elif r < 0.72:
            q.append({'op': 'end_cell', 'b': bi})
            if rng.random() < 0.6:
                q.append({'op': 'begin_parse', 'c': len(st.cells), 'b': bi,
                          'route': rng.choice(['begin_parse', 'to_slice', 'from_cell', 'builder_to_slice', 'copy', 'to_cell_again'])})
        elif r < 0.77:
            nb = rng.choice([0, 1, 3, 7, 8, 9, 12, 16, 100, 1023])
            q.append({'op': 'plain_cell', 'bits': _rbits(rng, nb), 'refs': [rng.randrange(1 << 16) for _ in range(rng.choice([0, 1, 4]))],
                      'resume': rng.choice(['', '', 'to_builder', 'slice_to_builder']) if nb >= 900 or rng.random() < 0.5 else ''})
            if rng.random() < 0.3:
                nb = rng.choice([1000, 1015, 1016, 1020, 1022, 1023])
                q.append({'op': 'plain_cell', 'bits': _rbits(rng, nb), 'refs': [rng.randrange(1 << 16) for _ in range(rng.choice([0, 3, 4]))], 'resume': rng.choice(['to_builder', 'slice_to_builder'])})
        elif st.slices:
            self._gen_aimed_load(st, rng)
        else:
            q.append({'op': 'begin_parse', 'c': rng.randrange(1 << 16), 'b': bi, 'route': 'begin_parse'})

    def _gen_aimed_store(self, st, rng, bi, rem, rrem):
        q = st.queue
        aim = rng.choice(['fit', 'fit', 'exact', 'exact', 'over1', 'over1', 'range', 'refs'])
        t = rng.choice(['uint', 'int', 'bits', 'bytes', 'string', 'var_uint', 'coins', 'address', 'bit', 'maybe_ref', 'cell', 'slice', 'var_int'])
        base = {'op': 'store', 'b': bi, 'aim': aim}
        if aim == 'refs':
            # drive the reference budget: fill to 4, then try a fifth through every composite store
            how = rng.choice(['ref', 'maybe_ref', 'dict', 'cell', 'slice', 'snake'])
            if rrem > 0 and rng.random() < 0.6:
                q.append(dict(base, t='ref', c=rng.randrange(1 << 16)))
                return
            if how in ('ref', 'maybe_ref', 'dict'):
                q.append(dict(base, t=how, c=rng.randrange(1 << 16)))
            elif how == 'cell':
                q.append({'op': 'aux_cell', 'bits': _rbits(rng, rng.choice([0, 1, 8])), 'refs': [rng.randrange(1 << 16) for _ in range(rng.choice([1, 2, rrem, rrem + 1, 4]))]})
                q.append(dict(base, t='cell', c=len(st.cells)))
            elif how == 'slice':
                nref = rng.choice([1, 2, 3, 4])
                q.append({'op': 'aux_cell', 'bits': _rbits(rng, rng.choice([0, 1, 8])), 'refs': [rng.randrange(1 << 16) for _ in range(nref)]})
                q.append({'op': 'begin_parse', 'c': len(st.cells), 'route': 'begin_parse', 'b': bi})
                for _ in range(rng.randint(0, nref)):
                    q.append({'op': 'load', 's': len(st.slices), 't': 'ref'})
                q.append(dict(base, t='slice', s=len(st.slices)))
            else:
                if rng.random() < 0.25:
                    # a prefixed snake string into a root with less than a byte free: prefix and text go to the continuation
                    ln = rng.choice([0, 1, 5, 126, 127, 300])
                    q.append(dict(base, t='snake_string', v=_rtext(rng, ln), prefix=True))
                elif rng.random() < 0.06:
                    k = rng.choice([989, 990, 1000, 1023, 1023, 1024, 1025])
                    q.append(dict(base, t='snake_bytes', vgen=[rng.getrandbits(32), rem // 8 + 127 * k - rng.choice([0, 1, 126])]))
                else:
                    ln = rem // 8 + rng.choice([0, 1, 200])
                    q.append(dict(base, t='snake_bytes', v=bytes(rng.getrandbits(8) for _ in range(ln)).hex()))
            return
        if aim == 'range':
            t = rng.choice(['uint', 'int', 'var_uint', 'var_int', 'coins', 'address'])
            if rng.random() < 0.12:
                # a zero-width field holds nothing: only the value 0 could fit it (whether 0 itself is storable at width 0
                # is a carve-out), every other value is out of range - at any fill level, also through addr_extern of length 0
                v = rng.choice([1, -1, 5, 255, 1 << 64, -(1 << 200)])
                tt = rng.choice(['uint', 'uint', 'int', 'ext'])
                if tt == 'ext':
                    q.append(dict(base, t='address', k='ext', n=0, v=abs(v), form=rng.choice(['obj', 'to_cell'])))
                else:
                    q.append(dict(base, t=tt, n=0, v=v))
                return
            if t == 'uint':
                n = max(1, min(rem, rng.choice(UINT_WIDTHS)))
                q.append(dict(base, t='uint', n=n, v=rng.choice([-1, 1 << n, (1 << n) + 1, -(1 << n)])))
            elif t == 'int':
                n = max(1, min(rem, rng.choice(UINT_WIDTHS + [257])))
                q.append(dict(base, t='int', n=n, v=rng.choice([-(1 << (n - 1)) - 1, 1 << (n - 1), (1 << n) - 1 if n > 1 else 1])))
            elif t == 'coins':
                q.append(dict(base, t='coins', v=rng.choice([-1, 1 << 120, (1 << 120) + 5])))
            elif t == 'var_uint':
                lb = rng.choice([2, 3, 4, 5])
                q.append(dict(base, t='var_uint', n=lb, v=rng.choice([-1, 1 << (8 * ((1 << lb) - 1))])))
            elif t == 'var_int':
                lb = rng.choice([2, 3, 4])
                mb = (1 << lb) - 1
                q.append(dict(base, t='var_int', n=lb, v=rng.choice([1 << (8 * mb - 1), -(1 << (8 * mb - 1)) - 1])))
            else:
                q.append(dict(base, t='address', k='std', wc=rng.choice([-129, 128, 255, -200]), acc=bytes(32).hex(), any=None, form='obj'))
            return
        # capacity aims: the encoding must need exactly `want` bits
        if aim == 'exact':
            want = rem
        elif aim == 'over1':
            want = rem + 1
        else:
            want = rng.randint(0, rem) if rem else 0
        op = self._sized_store(st, rng, dict(base), t, want)
        if op is None:
            op = self._sized_store(st, rng, dict(base), 'bits', want)
        # bring the builder to a fill level from which `t` can hit `want` exactly
        need = self._size_hint(op, st)
        if need is not None and aim in ('exact', 'over1'):
            target_rem = need if aim == 'exact' else need - 1
            filler = rem - target_rem
            if 0 < filler <= rem:
                q.append({'op': 'store', 'b': bi, 't': 'bits', 'v': _rbits(rng, filler), 'form': 'str', 'aim': 'filler'})
            elif filler < 0:
                op = self._sized_store(st, rng, dict(base), 'bits', want)
        q.extend(getattr(self, '_pre', []))
        self._pre = []
        q.append(op)

    def _size_hint(self, op, st):
        if op is None or op['t'] in ('cell', 'slice'):
            return None
        try:
            return len(model_encode(st, op)[0])
        except Exception:
            return None

    def _sized_store(self, st, rng, op, t, want):
        """Store op of type t whose natural size is near `want` bits (exact alignment by a filler op)."""
        self._pre = []
        if t in ('uint', 'int'):
            n = min(want, 256 if t == 'uint' else 257)
            if n < 1:
                n = 1
            n = rng.choice([n, n, min(n, rng.choice(UINT_WIDTHS))])
            v = rng.getrandbits(n) if t == 'uint' else rng.getrandbits(n) - (1 << (n - 1))
            return dict(op, t=t, n=n, v=v)
        if t == 'bits':
            return dict(op, t='bits', v=_rbits(rng, max(0, want)), form=rng.choice(['str', 'bitarray', 'tvm', 'list', 'gen', 'iter', 'map']))
        if t == 'bytes':
            return dict(op, t='bytes', v=bytes(rng.getrandbits(8) for _ in range(max(0, min(want // 8 + (want % 8 > 0), 128)))).hex())
        if t == 'string':
            return dict(op, t='string', v=_rtext(rng, max(1, min((want + 7) // 8, 128))))
        if t in ('var_uint', 'coins', 'var_int'):
            lb = 4 if t == 'coins' else rng.choice([3, 4, 5])
            nb = max(0, min((1 << lb) - 1, (want - lb) // 8))
            if t == 'var_int':
                v = rng.choice([(1 << (8 * nb - 1)) - 1, -(1 << (8 * nb - 1))]) if nb else 0
            else:
                v = rng.randint(1 << (8 * (nb - 1)), (1 << (8 * nb)) - 1) if nb else 0
            o = dict(op, t=t, v=v)
            if t != 'coins':
                o['n'] = lb
            return o
        if t == 'address':
            k = rng.choice(['none', 'ext', 'std'])
            if k == 'none':
                return dict(op, t='address', k='none')
            if k == 'ext':
                ln = max(1, min(511, want - 11))
                return dict(op, t='address', k='ext', n=ln, v=rng.getrandbits(ln))
            if rng.random() < 0.4:
                # anycast: 2 + 1 + 5 + depth + 8 + 256 bits; the filler brings the builder to exactly that room (or one bit less)
                d = rng.choice([1, 2, 5, 29, 30, rng.randint(1, 30)])
                return dict(op, t='address', k='std', wc=rng.randint(-128, 127), acc=bytes(rng.getrandbits(8) for _ in range(32)).hex(), any=[d, rng.getrandbits(d)], form='obj')
            return dict(op, t='address', k='std', wc=rng.randint(-128, 127), acc=bytes(rng.getrandbits(8) for _ in range(32)).hex(), any=None,
                        form=rng.choice(['obj', 'str']))
        if t == 'bit':
            return dict(op, t='bit', v=rng.getrandbits(1), form=rng.choice(['int', 'bool', 'str']))
        if t == 'maybe_ref':
            return dict(op, t='maybe_ref', c=rng.choice([None, rng.randrange(1 << 16)]))
        if t == 'cell':
            nb = max(0, min(1023, want))
            self._pre = [{'op': 'aux_cell', 'bits': _rbits(rng, nb), 'refs': [rng.randrange(1 << 16) for _ in range(rng.choice([0, 0, 1]))]}]
            return dict(op, t='cell', c=len(st.cells))
        if t == 'slice':
            nb = max(0, min(1023, want))
            skip = rng.choice([0, 0, 3, 8])
            nb2 = min(1023, nb + skip)
            self._pre = [{'op': 'aux_cell', 'bits': _rbits(rng, nb2), 'refs': [rng.randrange(1 << 16) for _ in range(rng.choice([0, 1, 2]))]},
                         {'op': 'begin_parse', 'c': len(st.cells), 'route': 'begin_parse', 'b': 0}]
            if nb2 - nb > 0:
                self._pre.append({'op': 'load', 's': len(st.slices), 't': 'bits', 'n': nb2 - nb})
            if rng.random() < 0.5:
                self._pre.append({'op': 'load', 's': len(st.slices), 't': 'ref'})
            return dict(op, t='slice', s=len(st.slices))
        return None

    def _gen_aimed_load(self, st, rng):
        q = st.queue
        si = len(st.slices) - 1 if rng.random() < 0.7 else rng.randrange(len(st.slices))
        se = st.slices[si]
        rem = len(se['bits'])
        aim = rng.choice(['within', 'all', 'over1', 'over1', 'refs'])
        base = {'op': 'load', 's': si, 'aim': aim}
        if aim == 'refs':
            q.append(dict(base, t=rng.choice(['ref', 'ref', 'maybe_ref'])))
            return
        want = {'within': rng.randint(0, rem) if rem else 0, 'all': rem, 'over1': rem + 1}[aim]
        t = rng.choice(['uint', 'int', 'bits', 'bytes', 'skip', 'bit', 'var_uint', 'coins', 'address', 'string', 'bool', 'var_int'])
        if t in ('uint', 'int'):
            if want < 1 or want > 300:
                t = 'bits'
            else:
                q.append(dict(base, t=t, n=want))
                return
        if t in ('bits', 'skip'):
            q.append(dict(base, t=t, n=want))
        elif t in ('bytes', 'string'):
            nb = (want + 7) // 8 if aim == 'over1' else want // 8
            if t == 'string' and nb == 0:
                t = 'bytes'
            q.append(dict(base, t=t, n=nb))
        elif t in ('var_uint', 'var_int'):
            q.append(dict(base, t=t, n=rng.choice([3, 4, 5])))
        else:
            q.append(dict(base, t=t))

    # ---------------- execution ----------------
    def apply(self, st, op, ctx):
        k = op['op']
        getattr(self, 'op_' + k)(st, op, ctx)

    def V(self, ctx, invariant, opkind, klass, msg):
        return ctx.violation(Violation(self.prop, invariant, opkind, klass, msg))

    def op_new_builder(self, st, op, ctx):
        st.builders.append({'lib': Builder(), 'bits': '', 'refs': []})

    def op_aux_cell(self, st, op, ctx):
        refs = [st.cells[r % len(st.cells)] for r in op['refs']] if st.cells else []
        try:
            twin = RCell(op['bits'], [e['twin'] for e in refs])
        except RCellError:
            return
        ok, c = call(Cell, tvm_bits(op['bits']), [e['lib'] for e in refs], -1)
        if not ok:
            self.V(ctx, 'fits-but-refused' if self.prop == 'C07' else 'store-refused', 'Cell()', 'direct', 'Cell(%d bits, %d refs) refused: %r' % (len(op['bits']), len(refs), c))
            return
        st.add_cell(c, twin)

    def op_aux_dict(self, st, op, ctx):
        m = {k: v for k, v in op['m']}
        twin = hashmap.build_hashmap(m, op['n'], lambda v: (tlb.enc_uint(v, op['vw']), ()))
        h = st.add_cell(lib_cell_from_rcell(twin), twin)
        if not hasattr(st, 'dict_width'):
            st.dict_width = {}
        st.dict_width[h] = op['n']

    def op_plain_cell(self, st, op, ctx):
        """Cell built directly from a plain bitarray (not TvmBitarray), then parsed."""
        refs = [st.cells[r % len(st.cells)] for r in op['refs']] if st.cells else []
        try:
            twin = RCell(op['bits'], [e['twin'] for e in refs])
        except RCellError:
            return
        ok, c = call(Cell, bitarray(op['bits']), [e['lib'] for e in refs], -1)
        if not ok:
            return
        h = st.add_cell(c, twin)
        ok, s = call(c.begin_parse)
        if ok:
            st.slices.append({'lib': s, 'bits': twin.bits, 'refs': [st.by_id[id(e['lib'])] for e in refs], 'plain': True})
            ctx.probe('slice-of-plain-bitarray-cell')
        if op.get('resume'):
            # building is resumed from the finished cell: the builder obtained this way is a builder like any other (same limits)
            okb, b = call(c.to_builder) if op['resume'] == 'to_builder' else call(lambda: c.begin_parse().to_builder())
            if okb and isinstance(b, Builder):
                st.builders.append({'lib': b, 'bits': twin.bits, 'refs': [st.by_id[id(e['lib'])] for e in refs]})
                ctx.probe('builder-resumed-from-a-plain-bitarray-cell')

    def op_aux_pruned(self, st, op, ctx):
        """A level-1 pruned branch standing for a subtree of depth d (built through the builder's exotic route)."""
        data = bytes([1, 1]) + bytes.fromhex(op['h']) + (op['d'] % 65536).to_bytes(2, 'big')
        twin = RCell(bytes_to_bits(data), (), True)
        ok, c = call(lambda: Builder(type_=1).store_bytes(data).end_cell())
        if not ok:
            ok, c = call(Cell, tvm_bits(twin.bits), [], 1)
        if not ok:
            # the pool must grow by exactly one cell (later operations name cells by index): an ordinary stand-in
            twin = RCell('1')
            c = Cell(tvm_bits('1'), [], -1)
        ctx.probe('pruned-branch-recording-depth-%s' % ('1023' if op['d'] == 1023 else '1021-1022' if op['d'] >= 1021 else 'small'))
        st.add_cell(c, twin)

    def op_deep_chain(self, st, op, ctx):
        n = op['n']
        cur_l = Builder().store_uint(1, 1).end_cell()
        cur_m = RCell('1')
        if op.get('base') is not None and st.cells:
            e = st.cells[op['base'] % len(st.cells)]
            cur_l, cur_m = e['lib'], e['twin']
        for i in range(1, n + 1):
            b = Builder().store_ref(cur_l)
            ok, c = call(b.end_cell)
            try:
                m = RCell('', (cur_m,))
            except RCellError:
                m = None
            if m is None:
                ctx.probe('depth-1024-attempted')
                if ok and self.prop == 'C07':
                    self.V(ctx, 'cell-limits', 'end_cell', 'depth', 'a cell of depth %d was produced' % i)
                break
            if not ok:
                if self.prop == 'C07':
                    self.V(ctx, 'fits-but-refused', 'end_cell', 'depth', 'cell of depth %d refused: %r' % (i, c))
                break
            cur_l, cur_m = c, m
        if cur_m.depth == 1023:
            ctx.probe('depth-1023-built')
        st.add_cell(cur_l, cur_m)

    def _resync_builder(self, st, be):
        lb = be['lib']
        be['bits'] = to01(lb.bits)
        be['refs'] = [st.handle_of(c) for c in lb.refs]

    def _resync_slice(self, st, se):
        s = se['lib']
        se['bits'] = to01(s.bits)
        se['refs'] = [st.handle_of(c) for c in s.refs[s.ref_offset:]]

    def op_store(self, st, op, ctx):
        be = pick(st.builders, op['b'])
        if be is None:
            return
        t = op['t']
        if t in ('ref', 'cell', 'maybe_ref', 'dict') and not st.cells and not (t in ('maybe_ref', 'dict') and op.get('c') is None):
            return
        if t == 'slice' and not st.slices:
            return
        rem_bits = 1023 - len(be['bits'])
        rem_refs = 4 - len(be['refs'])
        c07 = self.prop == 'C07'
        if t in ('snake_bytes', 'snake_string'):
            return self._store_snake(st, be, op, ctx, rem_bits, rem_refs)
        reason = None
        res = resolve(st, op)
        try:
            bits, refs = model_encode(st, op, res)
        except tlb.EncodeError:
            reason = 'range'
            bits, refs = '', []
        if reason is None:
            if len(bits) > rem_bits:
                reason = 'capacity-bits'
            elif len(refs) > rem_refs:
                reason = 'capacity-refs'
        if reason is None and t == 'string' and len(op['v'].encode()) > 127:
            reason = 'capacity-bits'
        # probes
        if reason is None and len(bits) == rem_bits and bits:
            ctx.probe('store-at-exactly-remaining-bits')
        if reason == 'capacity-bits' and len(bits) == rem_bits + 1:
            ctx.probe('store-one-bit-over')
        if reason == 'capacity-refs':
            ctx.probe('fifth-reference')
        if reason is None and refs and len(refs) == rem_refs:
            ctx.probe('fourth-reference')
        if reason == 'range':
            ctx.probe('out-of-range-value')
            if op.get('n') == 0:
                ctx.probe('non-zero-value-at-width-zero')
                reason = 'range-width-zero'
        klass = value_class(op)
        if klass == 'minimal-length-top-bit-set':
            ctx.probe('var-int-top-bit-class')
        if t == 'slice':
            se = st.slices[res['s']]
            if se['lib'].ref_offset > 0:
                klass = 'partly-consumed-refs'
                ctx.probe('store-partly-consumed-slice')
        before_bits = len(be['bits'])
        ok, res = lib_store(st, be, op, res)
        ctx.obs(ok)
        if reason is None and not ok and t == 'bits' and op.get('form') in LAZY_FORMS:
            # a library may insist on sized input (the unchanged one does: it asks len()); what it may not do is take an iterable
            # it cannot measure and write past the limit - that direction is judged below
            ctx.count('carve-out:unsized-iterable-refused')
            self._resync_builder(st, be)
            return
        if reason is None:
            if not ok:
                self.V(ctx, 'fits-but-refused' if c07 else 'store-refused', 'store_' + t, klass,
                       'store_%s %s fits (%d bits/%d refs needed, %d/%d free) but was refused: %r' % (t, _short(op), len(bits), len(refs), rem_bits, rem_refs, res))
                self._resync_builder(st, be)
                return
            be['bits'] += bits
            be['refs'] += refs
            lb = be['lib']
            got = to01(lb.bits)
            if got != be['bits'] or len(lb.refs) != len(be['refs']):
                if not c07:
                    self.V(ctx, 'bits-exact', 'store_' + t, klass,
                           'after store_%s %s builder holds %s (+%d refs), TL-B encoding is %s (+%d refs)'
                           % (t, _short(op), got[before_bits:before_bits + 80], len(lb.refs), bits[:80], len(be['refs'])))
                elif len(got) > 1023 or len(lb.refs) > 4:
                    self.V(ctx, 'cell-limits', 'store_' + t, klass, 'builder exceeds cell capacity: %d bits %d refs' % (len(got), len(lb.refs)))
                self._resync_builder(st, be)
        else:
            if ok:
                if c07:
                    self.V(ctx, 'accepted-invalid', 'store_' + t, reason,
                           'store_%s %s must be refused (%s: needs %d bits/%d refs, %d/%d free) but was accepted' % (t, _short(op), reason, len(bits), len(refs), rem_bits, rem_refs))
            else:
                ctx.count('refused-stores')
            self._resync_builder(st, be)
            lb = be['lib']
            if c07 and (len(lb.bits) > 1023 or len(lb.refs) > 4):
                self.V(ctx, 'cell-limits', 'store_' + t, reason, 'builder exceeds capacity after refused store')

    def _store_snake(self, st, be, op, ctx, rem_bits, rem_refs):
        t = op['t']
        data = snake_data(op) if t == 'snake_bytes' else (b'\x00' if op.get('prefix') else b'') + op['v'].encode()
        avail = rem_bits // 8
        # the tail is a chain of 127-byte cells; the cell being built sits one level above it and may be at most 1023 deep
        tail_cells = max(0, -(-(len(data) - avail) // 127))
        # (a tail of exactly 1024 cells can itself be built - it is 1023 deep - and referencing it is like store_ref of a 1023-deep
        # cell: the store may go through, the limit bites at end_cell; from 1025 cells on the tail cannot exist)
        must_refuse = (len(data) > avail and rem_refs < 1) or tail_cells > 1024
        if tail_cells == 1024 and not must_refuse:
            lib_store(st, be, op)
            self._resync_builder(st, be)
            ctx.probe('snake-whose-tail-is-1023-deep')
            return
        if tail_cells >= 900:
            ctx.probe('snake-chain-of-%s-cells' % ('900..989' if tail_cells < 990 else '990..1023' if tail_cells <= 1023 else '1024+'))
        if len(data) > avail:
            ctx.probe('snake-overflows-into-ref')
        if must_refuse:
            ctx.probe('fifth-reference')
        c07 = self.prop == 'C07'
        before = be['bits']
        nref_before = len(be['refs'])
        ok, res = lib_store(st, be, op)
        ctx.obs(ok)
        if must_refuse:
            if ok and c07:
                self.V(ctx, 'accepted-invalid', 'store_' + t, 'capacity-refs' if tail_cells <= 1024 else 'depth', 'a snake needing %s was accepted' % ('a 5th reference' if tail_cells <= 1024 else 'a chain of %d cells' % tail_cells))
            self._resync_builder(st, be)
            return
        if not ok:
            self.V(ctx, 'fits-but-refused' if c07 else 'store-refused', 'store_' + t, 'len-%s' % _lenclass(len(data)),
                   'store_%s of %d bytes at fill %d refused: %r' % (t, len(data), len(before), res))
            self._resync_builder(st, be)
            return
        self._resync_builder(st, be)
        if c07:
            return
        # tolerant of the chunking: head = whole bytes appended inline, rest in at most one new ref holding a valid snake
        added = be['bits'][len(before):]
        new_refs = be['refs'][nref_before:]
        okk = be['bits'].startswith(before) and len(added) % 8 == 0 and len(new_refs) <= 1
        got = b''
        if okk:
            got = int(added, 2).to_bytes(len(added) // 8, 'big') if added else b''
            if new_refs:
                rest = tlb.read_snake(st.cells[new_refs[0]]['twin'])
                okk = rest is not None
                got += rest or b''
        if not okk or got != data:
            self.V(ctx, 'bits-exact', 'store_' + t, 'len-%s' % _lenclass(len(data)),
                   'snake of %d bytes at fill %d is not a valid snake chain of the data (got %d bytes)' % (len(data), len(before), len(got)))

    def op_assign_finish(self, st, op, ctx):
        """builder.refs = [...] / builder.bits = ... followed by end_cell(), then the previous content is put back and the history
        goes on: later stores and reads must behave as if nothing had happened.  What end_cell() yields here is only counted."""
        be = pick(st.builders, op['b'])
        if be is None or not st.cells:
            return
        lib = be['lib']
        if op['what'] == 'refs':
            old = list(lib.refs)
            new = [st.cells[r % len(st.cells)]['lib'] for r in op['refs']]
            ok, _ = call(setattr, lib, 'refs', new)
        else:
            old = lib.bits.copy()
            new = bitarray(op['bits']) if op.get('plain') else None
            if new is None:
                ok, new = call(tvm_bits, op['bits'])
                if not ok:
                    ctx.probe('oversized-bit-array-refused-at-construction')
                    return
            ok, _ = call(setattr, lib, 'bits', new)
        ctx.probe('builder-property-assigned-' + op['what'])
        if ok:
            ok2, c = call(lib.end_cell)
            if ok2 and (len(c.bits) > 1023 or len(c.refs) > 4):
                # carve-out, counted and not asserted: C07 quantifies over sequences of STORE operations; replacing the builder's
                # containers through its property setters is not one of them (observed today: builder.refs = [5 cells] gives a 5-reference cell)
                ctx.probe('carve-out:oversized-cell-after-assigning-' + op['what'])
        call(setattr, lib, op['what'], old)

    def op_end_cell(self, st, op, ctx):
        be = pick(st.builders, op['b'])
        if be is None:
            return
        try:
            twin = RCell(be['bits'], [st.cells[h]['twin'] for h in be['refs']])
        except RCellError:
            twin = None
        ok, c = call(be['lib'].end_cell)
        ctx.obs(ok)
        c07 = self.prop == 'C07'
        if twin is None:
            ctx.probe('end_cell-beyond-limits')
            if ok and c07:
                self.V(ctx, 'cell-limits', 'end_cell', 'depth-or-size', 'a cell exceeding the limits was produced (%d bits, %d refs)' % (len(c.bits), len(c.refs)))
            return
        if not ok:
            self.V(ctx, 'fits-but-refused' if c07 else 'store-refused', 'end_cell', 'valid', 'end_cell refused a valid cell (%d bits, %d refs, depth %d): %r'
                   % (len(twin.bits), len(twin.refs), twin.depth, c))
            return
        if c07 and (len(c.bits) > 1023 or len(c.refs) > 4):
            self.V(ctx, 'cell-limits', 'end_cell', 'size', 'cell with %d bits %d refs' % (len(c.bits), len(c.refs)))
        if not c07:
            d = struct_diff(c, twin)
            if d:
                self.V(ctx, 'bits-exact', 'end_cell', 'cell', 'end_cell() differs from the TL-B encoding: ' + d)
        if twin.depth >= 1000:
            ctx.probe('deep-cell')
        st.add_cell(c, twin)

    def op_begin_parse(self, st, op, ctx):
        if not st.cells:
            return
        h = op['c'] % len(st.cells)
        e = st.cells[h]
        route = op.get('route', 'begin_parse')
        c = e['lib']
        if c.type_ != -1:
            return
        if route == 'to_slice':
            ok, s = call(c.to_slice)
        elif route == 'from_cell':
            ok, s = call(Slice.from_cell, c)
        elif route == 'copy':
            ok, s = call(lambda: c.begin_parse().copy())
        elif route == 'to_cell_again':
            ok, s = call(lambda: c.begin_parse().to_cell().begin_parse())
        elif route == 'builder_to_slice' and st.builders:
            be = pick(st.builders, op.get('b', 0))
            ok, s = call(be['lib'].to_slice)
            if ok:
                st.slices.append({'lib': s, 'bits': be['bits'], 'refs': list(be['refs'])})
            return
        else:
            ok, s = call(c.begin_parse)
        if not ok:
            return
        st.slices.append({'lib': s, 'bits': e['twin'].bits, 'refs': [st.handle_of(r) for r in c.refs]})

    def op_load(self, st, op, ctx):
        se = pick(st.slices, op['s'])
        if se is None:
            return
        t = op['t']
        peek = bool(op.get('peek'))
        if peek and t not in PEEKABLE:
            return
        c07 = self.prop == 'C07'
        exp = model_decode(st, se, op)
        if exp is OVER:
            ctx.probe('over-read-attempt' + ('-plain' if se.get('plain') else ''))
        elif exp is not UNDEF and exp[2] == len(se['bits']) and exp[2] > 0:
            ctx.probe('read-exactly-all-remaining-bits')
        ok, res = lib_load(se, op)
        ctx.obs(ok)
        s = se['lib']
        if exp is UNDEF:
            self._resync_slice(st, se)
            return
        if exp is OVER:
            if ok and not peek and c07:
                self.V(ctx, 'overread-accepted', 'load_' + t, 'plain-bitarray-cell' if se.get('plain') else 'slice',
                       'load_%s(%s) with %d bits/%d refs remaining returned %r instead of raising' % (t, op.get('n', ''), len(se['bits']), len(se['refs']), _shortv(res)))
            self._resync_slice(st, se)
            return
        _, val, nbits, nrefs = exp
        if not ok:
            if not c07:
                self.V(ctx, 'peek' if peek else 'roundtrip', ('preload_' if peek else 'load_') + t, _load_class(t, val),
                       '%s_%s(%s) raised %r; the stored value is %s' % ('preload' if peek else 'load', t, op.get('n', ''), res, _shortv(val)))
            self._resync_slice(st, se)
            return
        if t == 'skip':
            got = val
        elif t in ('ref', 'maybe_ref'):
            got = val
            if res is None:
                got = None
            else:
                twin = st.cells[val]['twin'] if val is not None else None
                if twin is None or struct_diff(res, twin):
                    got = ('other-cell',)
        else:
            got = lib_value(st, t, res)
        if t == 'address' and not c07:
            # the caller KEEPS the address values it was handed while it reads on (the same account may come again, in another form):
            # a value returned earlier is the caller's and must not change under it
            held = getattr(st, 'held_addresses', None)
            if held is None:
                held = st.held_addresses = []
            for obj, was in held:
                if addr_tuple(obj) != was:
                    self.V(ctx, 'returned-value-changed-later', ('preload_' if peek else 'load_') + t, 'address-held-by-the-caller',
                           'an address value returned by an earlier load changed while later addresses were loaded: %s -> %s' % (_shortv(was), _shortv(addr_tuple(obj))))
                    held.clear()
                    break
            if isinstance(res, Address) and len(held) < 64:
                held.append((res, got))
        if got != val and not c07:
            self.V(ctx, 'peek' if peek else 'roundtrip', ('preload_' if peek else 'load_') + t, _load_class(t, val),
                   '%s_%s(%s) returned %s, stored value is %s' % ('preload' if peek else 'load', t, op.get('n', ''), _shortv(got), _shortv(val)))
            self._resync_slice(st, se)
            return
        if not peek:
            se['bits'] = se['bits'][nbits:]
            se['refs'] = se['refs'][nrefs:]
        if (s.remaining_bits != len(se['bits']) or s.remaining_refs != len(se['refs'])) and not c07:
            self.V(ctx, 'peek-consumes' if peek else 'consumed-wrong', ('preload_' if peek else 'load_') + t, _load_class(t, val),
                   'after %s_%s slice has %d bits/%d refs left, model %d/%d' % ('preload' if peek else 'load', t, s.remaining_bits, s.remaining_refs, len(se['bits']), len(se['refs'])))
            self._resync_slice(st, se)
        elif c07 and not peek:
            self._resync_slice(st, se)

    def shrink_op(self, op):
        if op['op'] == 'store' and op['t'] in ('bits',) and len(op['v']) > 1:
            yield dict(op, v=op['v'][:len(op['v']) // 2])
        if op['op'] in ('aux_cell', 'plain_cell'):
            if op['refs']:
                yield dict(op, refs=op['refs'][:-1])
            if len(op['bits']) > 1:
                yield dict(op, bits=op['bits'][:len(op['bits']) // 2])
        if op['op'] == 'store' and op['t'] in ('snake_bytes',) and len(op['v']) > 2:
            yield dict(op, v=op['v'][:(len(op['v']) // 4) * 2])


class _ShadowSt:
    """Size accounting for ops that reference cells which will exist when the queue has run."""

    def __init__(self, st, ncells):
        self.st = st
        self.n = ncells

    def size_of(self, op):
        t = op['t']
        if t in ('maybe_ref', 'dict'):
            return 1, (0 if op.get('c') is None else 1)
        if t == 'ref':
            return 0, 1
        bits, refs = model_encode(self.st, op)
        return len(bits), len(refs)


def _rbits(rng, n):
    if n <= 0:
        return ''
    mode = rng.random()
    if mode < 0.1:
        return '0' * n
    if mode < 0.2:
        return '1' * n
    return bin(rng.getrandbits(n) | (1 << n))[3:]


_ALPH = 'abcdefghijklmnopqrstuvwxyzABCDEFGHIJKLMNOPQRSTUVWXYZ0123456789 _-'


def _rtext(rng, nbytes):
    out = ''
    left = nbytes
    while left > 0:
        if left >= 2 and rng.random() < 0.1:
            out += rng.choice('éßж')
            left -= 2
        else:
            out += rng.choice(_ALPH)
            left -= 1
    return out


def _short(op):
    d = {k: v for k, v in op.items() if k not in ('op', 'b', 't', 'aim')}
    s = repr(d)
    return s if len(s) < 160 else s[:160] + '...'


def _shortv(v):
    s = repr(v)
    return s if len(s) < 120 else s[:120] + '...'


def _lenclass(n):
    return '0' if n == 0 else ('le127' if n <= 127 else ('le1016' if n <= 1016 else 'long'))


def _load_class(t, val):
    if t == 'address' and isinstance(val, tuple):
        return val[0] + ('-anycast' if val[0] == 'std' and val[3] else '')
    if t == 'var_int' and isinstance(val, int) and val != 0 and tlb.var_int_bytes(val) != (abs(val).bit_length() + 7) // 8:
        return 'minimal-length-top-bit-set'
    return t
