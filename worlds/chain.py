"""CHAIN worlds: a lite-server / validators (harness actors on RCell and PyNaCl) vs the library's proof checks.

ProofWorld (C11): honest and Byzantine prover, corruption in transit, retry after healing.
SigWorld  (C12): validators signing over a lossy, duplicating, reordering net; Byzantine signers.
"""
import hashlib
import random

import nacl.signing

from detsim.core import HistoryWorld, Violation
from detsim.sim import Sim, Net
from refmodel import boc as refboc, chain as rc
from refmodel.rcell import RCell, RCellError, pruned_of, merkle_proof_of, merkle_update_of, bytes_to_bits
from .common import call, rcell_from_lib, lib_cell_from_rcell, Cell, Address

from pytoniq_core.proof.check_proof import check_proof, check_block_header_proof, check_account_proof, check_block_signatures
from pytoniq_core.tl.block import BlockIdExt
from pytoniq_core.boc.builder import Builder
from pytoniq_core.tlb.config import ValidatorDescr, SigPubKey

SIGN_MAGIC = bytes.fromhex('706e0bc5')      # ton.blockId
NODE_MAGIC = bytes.fromhex('c6b41348')      # pub.ed25519


# =========================================================================================
# C12
# =========================================================================================

class SigSt:
    pass


class SigWorld(HistoryWorld):
    name = 'CHAIN-SIG'
    chunk = 25
    legs = {'quick': [('main', 40000)], 'thorough': [('main', 1500000)]}
    budget = {'quick': 100, 'thorough': 1500}
    real_code = ['pytoniq_core.proof.check_proof.check_block_signatures / calculate_node_id_short', 'pytoniq_core.crypto.signature.verify_sign',
                 'pytoniq_core.tlb.config.ValidatorDescr / SigPubKey (as value objects)', 'pytoniq_core.tl.block.BlockIdExt']
    stubs = ['validators with PyNaCl Ed25519 keys drawn from the run PRNG', 'datagram net (drop, duplicate, delay/reorder, bit flip)', 'Byzantine validators (other block id, corrupted signature, foreign key)',
             'collector handing the arrivals in arrival order to the library', 'acceptance model of the statement']

    def rule(self):
        return ('Each run = n=0..12 validators with seeded weights (equal, one dominant, totals divisible by 3 so that exactly 2/3 is reachable) sign a block id; the signature messages cross a '
                'net that drops, duplicates, delays and reorders them; Byzantine validators sign another block id, emit corrupted signatures or are not in the set. The collector hands the '
                'arrivals, in arrival order, to check_block_signatures. Model: D = distinct known signers with a valid signature; must raise if any signature is invalid/unknown, the set is '
                'empty, or 3w(D) <= 2w(total); must accept if there are no duplicates, all are valid and 3w(D) > 2w(total); duplicates with D alone above 2/3 are a carve-out. After healing the '
                'collector de-duplicates and re-requests; a clean supermajority must then be accepted. Non-trivial = a fault or Byzantine deviation fired or the weight is within one unit of '
                '2/3; distinct = distinct (arrival kind sequence, probe set).')

    def assumptions(self):
        return ['PyNaCl Ed25519 is trusted', 'signature messages are dicts {node_id_short: hex, signature: bytes} as pytoniq passes them']

    def make_config(self, rng, leg, run_index):
        n = rng.choice([0, 1, 2, 3, 3, 4, 5, 6, 7, 9, 12])
        mode = rng.choice(['equal', 'equal3', 'dominant', 'random', 'thirds', 'big-boundary'])
        signers = None
        if mode == 'equal':
            w = [rng.choice([1, 10, 1000])] * n
        elif mode == 'equal3':
            n = (n // 3) * 3
            w = [1] * n
        elif mode == 'dominant':
            w = [rng.randint(1, 5) for _ in range(n)]
            if n:
                w[rng.randrange(n)] = sum(w) * rng.choice([1, 2, 3])
        elif mode == 'thirds':
            w = [rng.randint(1, 9) for _ in range(n)]
            if n >= 2:
                s = sum(w[:-1])
                w[-1] = (3 - s % 3) % 3 or 3
        elif mode == 'big-boundary':
            # main-net scale weights (64-bit; totals around 2^60 and above) with the signing group A within a few units of
            # two thirds: w(A) = 2 w(B) + d  <=>  3 w(A) - 2 w(total) = d
            n = max(n, 2)
            ka = rng.randint(1, n - 1)
            scale = rng.choice([50, 53, 56, 59, 60, 61, 62])
            wb = [rng.randint(2 ** (scale - 5), 2 ** scale // (n - ka)) for _ in range(n - ka)]
            d = rng.choice([-130, -92, -64, -3, -2, -1, 0, 1, 2, 3, 64, 129, rng.randint(-200, 200)])
            target = 2 * sum(wb) + d
            wa = []
            rest = target
            for j in range(ka - 1):
                x = rng.randint(1, max(1, rest // (ka - j) ))
                wa.append(x)
                rest -= x
            wa.append(rest)
            w = wa + wb
            signers = list(range(ka))
        else:
            w = [rng.randint(1, 2 ** rng.choice([4, 32, 60])) for _ in range(n)]
        if signers is None and n and rng.random() < 0.2:
            # members of weight 0 are legal (uint64) and cannot move the tally: their signatures must still be genuine
            for j in rng.sample(range(n), min(n, rng.choice([1, 1, 2, n]))):
                w[j] = 0
        if signers is not None:
            return {'n': n, 'weights': w, 'key_seed': rng.getrandbits(64), 'net': {'drop': 0, 'dup': rng.choice([0, 0.2]), 'jitter': rng.choice([0, 3, 10])},
                    'byz': 0, 'blk_seed': rng.getrandbits(64), 'steps': 400, 'respell': False, 'signers': signers}
        return {'n': n, 'weights': w, 'key_seed': rng.getrandbits(64), 'net': {'drop': rng.choice([0, 0.1, 0.4]), 'dup': rng.choice([0, 0.2, 0.5]), 'jitter': rng.choice([0, 3, 10])},
                'byz': rng.choice([0, 0, 1, 2]), 'blk_seed': rng.getrandbits(64), 'steps': 400, 'respell': rng.random() < 0.4}

    def new_state(self, ctx):
        cfg = ctx.cfg
        st = SigSt()
        kr = random.Random(cfg['key_seed'])
        st.keys = [nacl.signing.SigningKey(bytes(kr.getrandbits(8) for _ in range(32))) for _ in range(cfg['n'])]
        st.foreign = [nacl.signing.SigningKey(bytes(kr.getrandbits(8) for _ in range(32))) for _ in range(3)]
        st.weights = list(cfg['weights'])
        br = random.Random(cfg['blk_seed'])
        st.blk = BlockIdExt(-1, -2 ** 63, br.getrandbits(31), bytes(br.getrandbits(8) for _ in range(32)), bytes(br.getrandbits(8) for _ in range(32)))
        st.other = BlockIdExt(-1, -2 ** 63, br.getrandbits(31), bytes(br.getrandbits(8) for _ in range(32)), bytes(br.getrandbits(8) for _ in range(32)))
        if cfg['key_seed'] & 4 and st.weights and sum(st.weights) < 2 ** 62:
            # the weight field is a uint64: one member in the upper half of its range (never seen on the main net, legal all the same)
            st.weights[cfg['key_seed'] % len(st.weights)] += 2 ** 63
            ctx.probe('member-weight-in-the-upper-half-of-uint64')
        # half the sets are in the validator_addr form (each member also has an ADNL address - another 256-bit name for the same
        # validator, which is NOT the id signatures are filed under)
        st.adnl = [hashlib.sha256(b'adnl' + bytes(k.verify_key)).digest() for k in st.keys]
        if cfg['key_seed'] & 1:
            st.nodes = [ValidatorDescr('validator_addr', SigPubKey(bytes(k.verify_key)), w, a) for k, w, a in zip(st.keys, st.weights, st.adnl)]
        else:
            st.nodes = [ValidatorDescr('validator', SigPubKey(bytes(k.verify_key)), w) for k, w in zip(st.keys, st.weights)]
        if cfg['key_seed'] & 2:
            # the descriptors as a client gets them: parsed from the cells of a validator set (config parameters 32/34/36), not
            # constructed by hand
            def parsed(nd):
                b = Builder().store_bytes(b'\x73' if nd.adnl_addr is not None else b'\x53').store_bytes(b"\x8e\x81'\x8a").store_bytes(nd.public_key.pubkey).store_uint(nd.weight, 64)
                if nd.adnl_addr is not None:
                    b.store_bytes(nd.adnl_addr)
                return ValidatorDescr.deserialize(b.end_cell().begin_parse())
            ok, nodes = call(lambda: [parsed(nd) for nd in st.nodes])
            if ok:
                st.nodes = nodes
                ctx.probe('descriptors-parsed-from-cells')
        st.arrived = []
        st.phase = 0
        st.queue = []
        return st

    # ---- generation: simulate the net, then emit the concrete arrivals ----
    def gen_op(self, st, ctx):
        if st.queue:
            return st.queue.pop(0)
        if st.phase == 0:
            st.phase = 1
            self._simulate(st, ctx)
            st.queue.append({'op': 'check'})
            st.queue.append({'op': 'heal_check'})
            st.queue.append({'op': 'former_validator', 'who': ctx.rng.randrange(3), 'weight': ctx.rng.choice([1, 5, 10 ** 6, 2 ** 62])})
            st.queue.append({'op': 'replay_sibling', 'which': ctx.rng.choice(['file', 'root']), 'byte': ctx.rng.randrange(32), 'subset': ctx.rng.random() < 0.3,
                             'cursor': ctx.rng.random() < 0.5})
            return st.queue.pop(0)
        return None

    def _simulate(self, st, ctx):
        rng, cfg = ctx.rng, ctx.cfg
        sim = Sim(rng, ctx)
        arrivals = []
        net = Net(sim, cfg['net'], lambda dst, payload, meta: arrivals.append(meta['op']))
        n = cfg['n']
        byz = set(rng.sample(range(n), min(cfg['byz'], n))) if n else set()
        zeros = [i for i in range(n) if cfg['weights'][i] == 0]
        if zeros:
            ctx.probe('zero-weight-member')
            if cfg['byz'] and rng.random() < 0.7:
                # the deviating validators are the ones whose weight does not count
                byz = set(rng.sample(zeros, min(cfg['byz'], len(zeros))))
                ctx.probe('byzantine-zero-weight-member')
        signers = [i for i in range(n) if rng.random() < 0.85]
        if cfg.get('signers') is not None:
            signers = [i for i in cfg['signers'] if i < n]
            ctx.probe('big-weights-near-two-thirds')
        for i in signers:
            if i in byz:
                kind = rng.choice(['other-block', 'corrupt', 'corrupt-id', 'wrong-length', 'smuggled-prefix'])
                ctx.fault('byzantine-' + kind)
            else:
                kind = 'valid'
            sim.after(rng.randrange(5), net.send, 'collector', b'', {'op': {'op': 'arrive', 'v': i, 'kind': kind, 'bit': rng.randrange(512), 'spell': self._spell(rng, cfg, ctx)}})
        if cfg['byz'] and rng.random() < 0.4:
            ctx.fault('byzantine-foreign')
            sim.after(rng.randrange(5), net.send, 'collector', b'', {'op': {'op': 'arrive', 'v': rng.randrange(3), 'kind': 'foreign', 'bit': 0}})
        if n and rng.random() < 0.15:
            # a relay repeating one honest validator's message many times
            i = rng.randrange(n)
            ctx.fault('relay-repeats-signer')
            renonce = rng.random() < 0.5
            for _ in range(rng.choice([2, 3, 7])):
                o = {'op': 'arrive', 'v': i, 'kind': 'valid', 'bit': 0, 'spell': self._spell(rng, cfg, ctx)}
                if renonce:
                    o['nonce'] = 1 + rng.getrandbits(48)
                    ctx.fault('signer-signs-again-with-a-fresh-nonce')
                sim.after(rng.randrange(8), net.send, 'collector', b'', {'op': o})
        if n and rng.random() < 0.12:
            # a relay files one member's genuine signature under that member's ADNL address instead of its key hash (often next to
            # the properly filed one): that name is not a member id, whatever the descriptor form
            i = rng.randrange(n)
            ctx.fault('relay-names-signer-by-its-adnl-address')
            sim.after(rng.randrange(8), net.send, 'collector', b'', {'op': {'op': 'arrive', 'v': i, 'kind': 'named-by-adnl-addr', 'bit': 0, 'spell': 'lower'}})
        sim.run()
        st.queue.extend(arrivals)

    def _spell(self, rng, cfg, ctx):
        """A relay may re-spell the hex id (case, spaces between bytes); the id it denotes is the same."""
        if not cfg.get('respell') or rng.random() < 0.5:
            return 'lower'
        ctx.fault('relay-respells-node-id')
        return rng.choice(['upper', 'mixed', 'space'])

    # ---- execution ----
    def V(self, ctx, invariant, opkind, klass, msg):
        return ctx.violation(Violation(self.prop, invariant, opkind, klass, msg))

    def apply(self, st, op, ctx):
        getattr(self, 'op_' + op['op'])(st, op, ctx)

    def _sig(self, st, op):
        kind = op['kind']
        if kind == 'foreign':
            key = st.foreign[op['v'] % 3]
            blk = st.blk
        else:
            if not st.keys:
                return None
            key = st.keys[op['v'] % len(st.keys)]
            blk = st.other if kind == 'other-block' else st.blk
        pub = bytes(key.verify_key)
        sig = key.sign(SIGN_MAGIC + blk.root_hash + blk.file_hash).signature
        node_id = hashlib.sha256(NODE_MAGIC + pub).digest()
        if kind == 'valid' and op.get('nonce'):
            # Ed25519 signatures are not unique per (key, message): a signer that picks its nonce at random (hardware signers, the
            # hedged variant) gives ANOTHER genuine signature each time it is asked.  Same validator, same block, different 64 bytes
            sig = _sign_with_nonce(key, SIGN_MAGIC + blk.root_hash + blk.file_hash, op['nonce'])
        if kind == 'wrong-length':
            # an Ed25519 signature is exactly 64 bytes: truncated, empty or extended fields are not signatures
            sig = [sig[:63], sig[:32], b'', sig + b'\x00', sig + sig, sig + SIGN_MAGIC + blk.root_hash + blk.file_hash][op['bit'] % 6]
        if kind == 'smuggled-prefix':
            # the signer signs X || id and ships signature || X: a verifier that glues the field in front of the message
            # sees a valid signed blob, but nobody signed the block identifier itself
            x = bytes((op['bit'] * 7 + j) % 256 for j in range(1 + op['bit'] % 40))
            sig = key.sign(x + SIGN_MAGIC + blk.root_hash + blk.file_hash).signature + x
        if kind == 'corrupt':
            b = bytearray(sig)
            b[(op['bit'] // 8) % 64] ^= 0x80 >> (op['bit'] % 8)
            sig = bytes(b)
        if kind == 'named-by-adnl-addr':
            node_id = st.adnl[op['v'] % len(st.keys)]
        if kind == 'corrupt-id':
            b = bytearray(node_id)
            b[(op['bit'] // 8) % 32] ^= 0x80 >> (op['bit'] % 8)
            node_id = bytes(b)
        hx = node_id.hex()
        sp = op.get('spell', 'lower')
        if sp == 'upper':
            hx = hx.upper()
        elif sp == 'mixed':
            hx = ''.join(ch.upper() if i % 3 == 0 else ch for i, ch in enumerate(hx))
        elif sp == 'space':
            hx = ' '.join(hx[i:i + 2] for i in range(0, len(hx), 2))
        return {'node_id_short': hx, 'signature': sig, '_v': (op['v'] % len(st.keys)) if kind != 'foreign' and st.keys else None, '_kind': kind}

    def op_arrive(self, st, op, ctx):
        s = self._sig(st, op)
        if s is not None:
            st.arrived.append(s)

    def _judge(self, st, sigs):
        """('must-raise', why) | ('must-accept', '') | ('either', why)"""
        total = sum(st.weights)
        if not st.nodes:
            return 'must-raise', 'empty-validator-set'
        bad = [s for s in sigs if s['_kind'] != 'valid']
        if bad:
            return 'must-raise', {'other-block': 'invalid-signature', 'corrupt': 'invalid-signature', 'corrupt-id': 'unknown-signer', 'foreign': 'unknown-signer', 'named-by-adnl-addr': 'signer-named-by-its-adnl-address',
                                  'wrong-length': 'signature-field-not-64-bytes', 'smuggled-prefix': 'signature-over-other-message-with-prefix-in-field'}[bad[0]['_kind']]
        signers = [s['_v'] for s in sigs]
        distinct = set(signers)
        w = sum(st.weights[i] for i in distinct)
        if 3 * w <= 2 * total:
            if 3 * w == 2 * total:
                return 'must-raise', 'exactly-two-thirds'
            if len(signers) != len(distinct) and 3 * sum(st.weights[i] for i in signers) > 2 * total:
                return 'must-raise', 'repeated-signer-counted'
            return 'must-raise', 'insufficient-weight'
        if len(signers) != len(distinct):
            return 'either', 'duplicates-with-supermajority'
        return 'must-accept', ''

    def _call(self, st, sigs):
        clean = [{'node_id_short': s['node_id_short'], 'signature': s['signature']} for s in sigs]
        if len(clean) % 2:
            return call(check_block_signatures, nodes=list(st.nodes), signatures=clean, blk=st.blk)     # keyword spelling
        return call(check_block_signatures, list(st.nodes), clean, st.blk)

    def _lazy_sigs(self, st, clean):
        """The signatures arrive through a lazy stream, and while the stream is being drained ANOTHER check runs over the same
        ValidatorDescr objects (a second block being verified by the same client: two callers interleaved at the only yield points a
        synchronous library has).  The other check is complete and correct; it must not change what this one concludes."""
        full = [self._sig(st, {'v': i, 'kind': 'valid', 'bit': 0}) for i in range(len(st.keys))]
        full = [{'node_id_short': x['node_id_short'], 'signature': x['signature']} for x in full]
        for i, x in enumerate(clean):
            if i >= 1:
                call(check_block_signatures, list(st.nodes), list(full), st.blk)
            yield x

    def op_check(self, st, op, ctx):
        sigs = st.arrived
        verdict, why = self._judge(st, sigs)
        total = sum(st.weights)
        w = sum(st.weights[i] for i in set(s['_v'] for s in sigs if s['_kind'] == 'valid'))
        if total and abs(3 * w - 2 * total) <= 3:
            ctx.probe('weight-within-one-unit-of-two-thirds')
        if total and 3 * w == 2 * total:
            ctx.probe('exactly-two-thirds')
        if not st.nodes:
            ctx.probe('empty-validator-set')
        if len(sigs) != len(set(s['node_id_short'] for s in sigs)):
            ctx.probe('duplicate-signatures-arrived')
        ok, res = self._call(st, sigs)
        ctx.obs(ok)
        ctx.evaluated(1)
        # the same arguments handed over as other kinds of collection (the set as a tuple, a dict view, a one-shot iterator - e.g.
        # islice(vset.list.values(), vset.main) - the signatures as a tuple or an iterator).  A library may insist on lists (its
        # annotations say List) and refuse the others; what it may not do is ACCEPT through them a set it has to reject
        if verdict == 'must-raise':
            clean = [{'node_id_short': x['node_id_short'], 'signature': x['signature']} for x in sigs]
            for form, mk_nodes, mk_sigs in (('nodes-as-iterator', lambda: iter(list(st.nodes)), lambda: list(clean)),
                                            ('nodes-as-generator', lambda: (n for n in st.nodes), lambda: tuple(clean)),
                                            ('nodes-as-dict-values', lambda: dict(enumerate(st.nodes)).values(), lambda: iter(clean)),
                                            ('nodes-as-tuple', lambda: tuple(st.nodes), lambda: list(clean)),
                                            ('interleaved-with-another-check-over-the-same-descriptors', lambda: list(st.nodes), lambda: self._lazy_sigs(st, clean))):
                ok_f, _ = call(lambda: check_block_signatures(mk_nodes(), mk_sigs(), st.blk))
                ctx.evaluated(1)
                if ok_f:
                    ctx.probe('arguments-as-other-collections')
                    self.V(ctx, 'accepted-invalid-set', 'check_block_signatures', why + '/' + form,
                           'with the validator set / signatures handed over as %s, a signature set that must be rejected (%s) was accepted' % (form, why))
                    return
            ctx.probe('arguments-as-other-collections')
        if verdict == 'must-raise' and ok:
            self.V(ctx, 'accepted-invalid-set', 'check_block_signatures', why,
                   'accepted a signature set that must be rejected (%s): %d signatures, %d distinct valid signers, weight %d of %d' % (why, len(sigs), len(set(s['_v'] for s in sigs if s['_kind'] == 'valid')), w, total))
        elif verdict == 'must-accept' and not ok:
            self.V(ctx, 'rejected-valid-set', 'check_block_signatures', 'supermajority', 'rejected %d valid signatures by distinct validators holding %d of %d: %r' % (len(sigs), w, total, res))
        elif verdict == 'either':
            ctx.count('carve-out:' + why)

    def op_heal_check(self, st, op, ctx):
        """Faults stop: de-duplicate, drop what does not verify, re-request from every honest validator."""
        if not st.nodes:
            return
        sigs = []
        for i in range(len(st.keys)):
            sigs.append(self._sig(st, {'v': i, 'kind': 'valid', 'bit': 0}))
        ok, res = self._call(st, sigs)
        ctx.evaluated(1)
        ctx.probe('healed-round')
        if sum(st.weights) == 0:
            # every member has weight 0: nothing exceeds two thirds of nothing
            ctx.probe('total-weight-zero')
            if ok:
                self.V(ctx, 'accepted-invalid-set', 'check_block_signatures', 'total-weight-zero', 'a validator set of total weight 0 was accepted')
            return
        if not ok:
            self.V(ctx, 'liveness-after-heal', 'check_block_signatures', 'all-honest', 'after faults stopped, the complete set of valid signatures by all %d validators was rejected: %r' % (len(sigs), res))

    def op_former_validator(self, st, op, ctx):
        """Validator-set rotation: X belongs to the set checked first and not to the set checked next; X's (valid) signature
        in the second call is from an unknown signer, whatever was checked before."""
        if not st.nodes:
            return
        x = st.foreign[op['who'] % 3]
        xnode = ValidatorDescr('validator', SigPubKey(bytes(x.verify_key)), op['weight'])
        sigs = [self._sig(st, {'v': i, 'kind': 'valid', 'bit': 0}) for i in range(len(st.keys))]
        xs = self._sig(st, {'v': op['who'], 'kind': 'foreign', 'bit': 0})
        clean = [{'node_id_short': s['node_id_short'], 'signature': s['signature']} for s in sigs + [xs]]
        ok, res = call(check_block_signatures, list(st.nodes) + [xnode], clean, st.blk)
        ctx.evaluated(1)
        if not ok:
            self.V(ctx, 'rejected-valid-set', 'check_block_signatures', 'set-with-extra-validator', 'all %d validators of the larger set signed, rejected: %r' % (len(clean), res))
            return
        ctx.fault('validator-set-rotated-former-member-signs')
        ok, res = call(check_block_signatures, list(st.nodes), clean, st.blk)
        ctx.evaluated(1)
        ctx.obs(ok)
        if ok:
            self.V(ctx, 'accepted-invalid-set', 'check_block_signatures', 'former-validator-still-known',
                   'a signature by a member of the previously checked validator set, who is not in the supplied set, was accepted')

    def op_replay_sibling(self, st, op, ctx):
        """After the genuine set for block A has been accepted, a relay presents the same signatures for a sibling
        identifier B that shares A's root hash (or file hash) - they do not sign B."""
        if not st.nodes:
            return
        sigs = [self._sig(st, {'v': i, 'kind': 'valid', 'bit': 0}) for i in range(len(st.keys))]
        clean = [{'node_id_short': s['node_id_short'], 'signature': s['signature']} for s in sigs]
        ok, res = call(check_block_signatures, list(st.nodes), clean, st.blk)
        if not ok:
            return   # reported by heal_check
        rh, fh = bytearray(st.blk.root_hash), bytearray(st.blk.file_hash)
        (fh if op['which'] == 'file' else rh)[op['byte'] % 32] ^= 0x01
        if op.get('cursor'):
            # the client keeps ONE block-id object as a cursor and advances it in place (its fields are plain attributes):
            # the check must follow the identifier's current value, not the value it had when it was first checked
            keep = (st.blk.root_hash, st.blk.file_hash)
            try:
                st.blk.root_hash, st.blk.file_hash = bytes(rh), bytes(fh)
                sib = st.blk
                ctx.probe('block-id-object-advanced-in-place-between-checks')
            except Exception:   # an implementation with read-only identifiers has no such history
                op = dict(op, cursor=False)
                ctx.probe('block-id-object-is-read-only')
        if not op.get('cursor'):
            sib = BlockIdExt(st.blk.workchain, st.blk.shard, st.blk.seqno, bytes(rh), bytes(fh))
        ctx.fault('relay-replays-set-for-sibling-block-' + op['which'])
        ok, res = call(check_block_signatures, list(st.nodes), clean, sib)
        if op.get('cursor'):
            st.blk.root_hash, st.blk.file_hash = keep
        ctx.evaluated(1)
        ctx.obs(ok)
        if ok:
            self.V(ctx, 'accepted-invalid-set', 'check_block_signatures', 'signatures-of-sibling-block-after-genuine-check',
                   'after the genuine set for block A was accepted, the same %d signatures were accepted for a block id that differs from A in its %s hash' % (len(clean), op['which']))
            return
        # and the genuine set is still accepted afterwards
        ok, res = call(check_block_signatures, list(st.nodes), clean, st.blk)
        if not ok:
            self.V(ctx, 'rejected-valid-set', 'check_block_signatures', 'after-rejected-sibling', 'the genuine set was rejected after a rejected replay: %r' % (res,))

    def shrink_op(self, op):
        return ()


# =========================================================================================
# C11
# =========================================================================================

def _sign_with_nonce(key, msg, nonce):
    """A genuine Ed25519 signature of msg by key, made with the nonce scalar derived from `nonce` instead of the deterministic one."""
    import nacl.bindings as nb
    h = hashlib.sha512(bytes(key)).digest()
    a = bytearray(h[:32])
    a[0] &= 248
    a[31] &= 127
    a[31] |= 64
    a = nb.crypto_core_ed25519_scalar_reduce(bytes(a) + bytes(32))
    r = nb.crypto_core_ed25519_scalar_reduce(hashlib.sha512(b'nonce' + nonce.to_bytes(8, 'big') + msg).digest())
    R = nb.crypto_scalarmult_ed25519_base_noclamp(r)
    A = bytes(key.verify_key)
    k = nb.crypto_core_ed25519_scalar_reduce(hashlib.sha512(R + A + msg).digest())
    S = nb.crypto_core_ed25519_scalar_add(r, nb.crypto_core_ed25519_scalar_mul(k, a))
    sig = R + S
    key.verify_key.verify(msg, sig)      # harness self-check: it IS a valid signature
    return sig


DEVIATIONS = ['wrong-expected-hash', 'flip-data-bit', 'change-bit-length', 'swap-refs', 'drop-ref', 'dup-ref', 'flip-root-hash-field', 'substitute-pruned-hash',
              'root-ordinary', 'root-pruned', 'root-merkle-update', 'transit-bitflip']
ACCOUNT_DEVIATIONS = ['claim-other-cell', 'claim-pruned-carrying-hash', 'claim-skeleton-with-pruned-children', 'wrong-block-hash', 'other-address',
                      'flip-data-bit', 'substitute-pruned-hash', 'swap-refs', 'root-ordinary', 'transit-bitflip', 'state-from-other-block',
                      'missing-root', 'roots-swapped', 'root-merkle-update', 'claim-neighbouring-reference', 'path-to-account-pruned']


class ProofSt:
    pass


class ProofWorld(HistoryWorld):
    name = 'CHAIN-PROOF'
    chunk = 10
    legs = {'quick': [('main', 6000)], 'thorough': [('main', 250000)]}
    budget = {'quick': 110, 'thorough': 1500}
    real_code = ['pytoniq_core.proof.check_proof.check_proof / check_block_header_proof / check_account_proof', 'pytoniq_core.boc (Cell.from_boc, exotic cell hashing)',
                 'pytoniq_core.tlb.block.ShardStateUnsplit / ShardAccounts / DepthBalanceInfo / CurrencyCollection', 'pytoniq_core.tlb.account.ShardAccount / Account', 'pytoniq_core.boc.hashmap.parse (augmented, partially pruned)']
    stubs = ['lite-server holding trees / synthetic shard states / blocks built on RCell (refmodel/chain.py)', 'honest prover: prunes a seeded set of subtrees, wraps Merkle proofs, encodes with random valid BoC options',
             'Byzantine prover: exactly one deviation per proof', 'transport with bit flips', 'client glue in the call order pytoniq uses', 'reference verifier applied to the tree the client actually parsed']

    def rule(self):
        return ('Each run = one lite-server world (a random tree and a synthetic ShardStateUnsplit with a HashmapAugE 256 of 1..40 accounts inside a block whose state_update commits to it) and a '
                'sequence of queries: generic proof, block-header proof, account proof. Honest answers (seeded pruning that never touches the path to the queried account, random BoC options) must be '
                'accepted. Byzantine answers carry exactly ONE deviation from the statement\'s list (wrong expected hash; flipped data bit / changed bit length / swapped, dropped, duplicated reference of an '
                'unpruned cell; flipped hash field of the proof root; substituted pruned hash; ordinary / pruned / Merkle-update cell instead of a Merkle proof; claimed account state that is another cell, '
                'a pruned branch carrying the committed hash, or a skeleton with pruned children; plus bit flips in transit). The reference verifier is applied to the cell tree the client obtained from '
                'Cell.from_boc: if the parse raised the proof was rejected; if the verifier says it does not prove the claim the library must raise; if it still proves it nothing is asserted. After a '
                'rejection the client retries against the honest server and must accept. Non-trivial = a deviation or a pruning was applied; distinct = distinct (query kind, deviation, outcome) sequences.')

    def assumptions(self):
        return ['refmodel RCell/BoC/Hashmap/chain builders are the trusted base; up to three Merkle levels are nested (the outer proof over a tree whose embedded Merkle cells embed Merkle cells)', 'carve-outs: depth field of the Merkle-proof root, stored-hash field of the two roots of an account proof, proofs of absence, check_shard_proof',
                'the reference verifier judges the parsed tree, so BoC-format leniency stays with C05']

    def make_config(self, rng, leg, run_index):
        return {'world_seed': rng.getrandbits(64), 'naccounts': rng.choice([1, 1, 2, 3, 6, 12, 40]), 'tree': rng.choice([1, 3, 10, 40, 150]), 'steps': rng.choice([4, 8, 12]),
                'byz_rate': rng.choice([0.0, 0.5, 0.8]), 'extra_currencies': rng.random() < 0.4, 'nest': rng.choice([1, 2, 2])}

    def new_state(self, ctx):
        cfg = ctx.cfg
        st = ProofSt()
        wr = random.Random(cfg['world_seed'])
        st.tree = rc.random_tree(wr, cfg['tree'])
        st.wc = wr.choice([0, 0, -1])
        st.accounts = {}
        xc = bool(cfg.get('extra_currencies'))
        for _ in range(cfg['naccounts']):
            k = wr.getrandbits(256)
            if wr.random() < 0.3 and st.accounts:
                # share a long prefix with an existing key
                base = wr.choice(sorted(st.accounts))
                low = wr.randint(1, 200)
                k = (base >> low << low) | wr.getrandbits(low)
            st.accounts[k] = rc.make_account(wr, st.wc, k.to_bytes(32, 'big'), extra_currencies=xc)
        st.state = rc.make_shard_state(wr, st.accounts, st.wc, extra_currencies=xc)
        st.old = rc.random_tree(wr, wr.choice([1, 4, 9]))
        st.block = rc.make_block(wr, st.old, st.state, partial=wr.random() < 0.6)
        # a second block/state (for cross-block substitutions)
        st.state2 = rc.make_shard_state(wr, {k: rc.make_account(wr, st.wc, k.to_bytes(32, 'big')) for k in list(st.accounts)[:3]}, st.wc)
        st.block2 = rc.make_block(wr, st.old, st.state2)
        st.blk_id = BlockIdExt(st.wc, -2 ** 63, 7, st.block.hash, bytes(32))
        # a tree that itself contains a Merkle proof (two nested Merkle levels: pruned cells of mask 3 appear in proofs of it)
        a, b, c, d = (rc.random_tree(wr, wr.choice([1, 3, 6])) for _ in range(4))
        x = RCell(rc.rbits(wr, 40), (pruned_of(a, 1), b))
        y = RCell(rc.rbits(wr, 17), (x, c))
        st.nested = RCell(rc.rbits(wr, 9), (merkle_proof_of(y), d))
        st.nested_proof_child = RCell(st.nested.bits, (RCell(merkle_proof_of(y).bits, (RCell(y.bits, (pruned_of(x, 2), c)),), True, strict=False), d))
        # random trees embedding partially pruned Merkle proofs / updates: the outer prover prunes next to and below them
        st.tree_m = rc.random_tree_with_merkle(wr, max(4, cfg['tree'] // 2), nest=cfg.get('nest', 1))
        return st

    def gen_op(self, st, ctx):
        rng = ctx.rng
        kind = rng.choice(['generic', 'header', 'account', 'account'])
        byz = rng.random() < ctx.cfg['byz_rate']
        op = {'op': 'query', 'kind': kind, 'prune_seed': rng.getrandbits(32), 'prune_frac': rng.choice([0.0, 0.2, 0.6, 1.0]), 'enc_seed': rng.getrandbits(32),
              'acct': rng.randrange(1 << 16), 'dev': None}
        if byz:
            devs = ACCOUNT_DEVIATIONS if kind == 'account' else DEVIATIONS
            op['dev'] = {'kind': rng.choice(devs), 'seed': rng.getrandbits(32)}
        return op

    def V(self, ctx, invariant, opkind, klass, msg):
        return ctx.violation(Violation(self.prop, invariant, opkind, klass, msg))

    def apply(self, st, op, ctx):
        getattr(self, 'q_' + op['kind'])(st, op, ctx)

    # ---- helpers ----
    def _prune(self, root, seed, frac, keep_path=None, keep_prefixes=()):
        """Honest prover: prune a seeded set of subtrees, never on keep_path (nor its ancestors/descendants)."""
        rng = random.Random(seed)
        cand = []
        for path, c, d in rc.subtrees_md(root):
            if (c.special and not rc.is_merkle(c)) or c.mask >= (1 << d):
                continue
            if keep_path is not None and (keep_path[:len(path)] == path or path[:len(keep_path)] == keep_path):
                continue
            # a kept prefix (the state_update cell of a block) must stay itself; below it the prover may prune (at level 2)
            if any(p[:len(path)] == path for p in keep_prefixes):
                continue
            cand.append(path)
        chosen = [p for p in cand if rng.random() < frac]
        return rc.prune_paths_md(root, chosen), len(chosen)

    def _encode(self, roots, seed):
        rng = random.Random(seed)
        f = rng.choice([(0, 0, 0), (0, 1, 0), (1, 0, 0), (1, 1, 0), (1, 0, 1), (1, 1, 1)])
        order = refboc.random_topo_order(roots, rng)
        # liteservers ship bags whose cells carry their stored hashes and depths (one per level present in the mask) as often as not
        wh = True if rng.random() < 0.4 else None
        return refboc.encode(roots, has_idx=bool(f[0]), has_crc=bool(f[1]), has_cache_bits=bool(f[2]), order=order, with_hashes=wh)

    def _deviate_tree(self, root, dev, ctx):
        """Apply one structural deviation below the proof root's child.  Returns new child or None if inapplicable."""
        rng = random.Random(dev['seed'])
        kind = dev['kind']
        cells = [(p, c) for p, c in [((), root)] + rc.subtrees(root) if not c.special]
        pruned = [(p, c) for p, c in rc.subtrees(root) if c.special and c.type == 1]
        try:
            if kind == 'flip-data-bit':
                cand = [(p, c) for p, c in cells if c.bits]
                if not cand:
                    return None
                p, c = rng.choice(cand)
                i = rng.randrange(len(c.bits))
                nb = c.bits[:i] + ('1' if c.bits[i] == '0' else '0') + c.bits[i + 1:]
                return rc.rebuild(root, {p: RCell(nb, c.refs, False, strict=False)})
            if kind == 'change-bit-length':
                p, c = rng.choice(cells)
                nb = c.bits[:-1] if c.bits and rng.random() < 0.5 else c.bits + rng.choice('01')
                if len(nb) > 1023:
                    nb = c.bits[:-1]
                return rc.rebuild(root, {p: RCell(nb, c.refs, False, strict=False)})
            if kind in ('swap-refs', 'drop-ref', 'dup-ref'):
                cand = [(p, c) for p, c in cells if len(c.refs) >= (2 if kind == 'swap-refs' else 1)]
                if kind == 'swap-refs':
                    cand = [(p, c) for p, c in cand if c.refs[0].hash_at(0) != c.refs[1].hash_at(0)]
                if kind == 'dup-ref':
                    cand = [(p, c) for p, c in cand if len(c.refs) < 4]
                if not cand:
                    return None
                p, c = rng.choice(cand)
                refs = list(c.refs)
                if kind == 'swap-refs':
                    refs[0], refs[1] = refs[1], refs[0]
                elif kind == 'drop-ref':
                    refs.pop(rng.randrange(len(refs)))
                else:
                    refs.append(refs[rng.randrange(len(refs))])
                return rc.rebuild(root, {p: RCell(c.bits, refs, False, strict=False)})
            if kind == 'substitute-pruned-hash':
                if not pruned:
                    return None
                p, c = rng.choice(pruned)
                i = 16 + rng.randrange(256)
                nb = c.bits[:i] + ('1' if c.bits[i] == '0' else '0') + c.bits[i + 1:]
                return rc.rebuild(root, {p: RCell(nb, (), True, strict=False)})
        except RCellError:
            return None
        return None

    def _client_parse(self, data, ctx):
        ok, roots = call(Cell.from_boc, data)
        if not ok:
            return None, roots
        return roots, None

    def _to_model(self, cells):
        try:
            return [rcell_from_lib(c, strict=False) for c in cells]
        except (RCellError, ValueError, IndexError):
            return None

    def _flip_transit(self, data, seed, ctx):
        rng = random.Random(seed)
        b = bytearray(data)
        for _ in range(rng.choice([1, 1, 2])):
            i = rng.randrange(len(b) * 8)
            b[i // 8] ^= 0x80 >> (i % 8)
        ctx.fault('transit-bitflip')
        return bytes(b)

    def _judge_and_check(self, ctx, op, what, lib_ok, lib_res, verdict, reason, devkind, parsed):
        """verdict: True proves / False does not prove / None unknown (nothing asserted)."""
        ctx.evaluated(1)
        ctx.obs(lib_ok, verdict)
        ctx.tag(what, devkind or 'honest', lib_ok)
        if verdict is None:
            ctx.count('carve-out:model-cannot-judge')
            return
        if verdict and not lib_ok:
            if devkind is None:
                self.V(ctx, 'honest-proof-rejected', what, 'honest', 'an honest %s proof was rejected: %r' % (what, lib_res))
            else:
                # a deviation that happens to leave a valid proof which the library rejects
                self.V(ctx, 'valid-proof-rejected', what, devkind, 'a proof that still proves the claim after deviation %s was rejected: %r' % (devkind, lib_res))
        if not verdict and lib_ok:
            self.V(ctx, 'forged-proof-accepted', what, devkind or 'honest', 'a %s proof that does not prove the claim (%s; deviation %s) was accepted' % (what, reason, devkind))

    # ---- generic proof ----
    def q_generic(self, st, op, ctx):
        dev = op['dev']
        dk = dev['kind'] if dev else None
        if dk in ('wrong-block-hash', 'other-address', 'path-to-account-pruned', 'claim-other-cell', 'claim-pruned-carrying-hash', 'claim-skeleton-with-pruned-children', 'state-from-other-block',
                  'missing-root', 'roots-swapped'):
            dk, dev = None, None
        tree = st.tree
        expected = tree.hash
        child, npr = self._prune(tree, op['prune_seed'], op['prune_frac'])
        if op['prune_seed'] % 5 == 0:
            # the tree with an inner Merkle proof; the honest prover prunes inside it at level 2
            tree = st.nested
            expected = tree.hash
            child, npr = st.nested_proof_child, 1
            ctx.probe('nested-merkle-levels')
        elif op['prune_seed'] % 5 in (1, 2):
            tree = st.tree_m
            expected = tree.hash
            child, npr = self._prune(tree, op['prune_seed'], op['prune_frac'])
            ctx.probe('tree-with-inner-merkle-cells')
            if any(c.special and c.type == 1 and c.mask >= 2 for c in child.walk()):
                ctx.probe('level-2-pruned-branch-in-proof')
            for c in child.walk():
                if c.special and c.type == 1 and c.mask in (2, 4, 5, 6):
                    ctx.probe('pruned-branch-with-gapped-mask-%s-in-proof' % bin(c.mask)[2:].zfill(3))
                if c.special and c.type == 1 and c.mask >= 4:
                    ctx.probe('level-3-pruned-branch-in-proof')
            if any((not c.special) and len(set(r.mask for r in c.refs if r.mask)) > 1 for c in child.walk()):
                ctx.probe('siblings-with-different-level-masks')
        if npr:
            ctx.probe('pruned-subtrees')
        proof = merkle_proof_of(child)
        if dk:
            ctx.fault('byzantine-' + dk)
        if dk == 'wrong-expected-hash':
            b = bytearray(expected)
            b[dev['seed'] % 32] ^= 1 << (dev['seed'] % 8)
            expected = bytes(b)
        elif dk in ('flip-data-bit', 'change-bit-length', 'swap-refs', 'drop-ref', 'dup-ref', 'substitute-pruned-hash'):
            nc = self._deviate_tree(child, dev, ctx)
            if nc is None:
                dk = None
            else:
                fix = random.Random(dev['seed']).random() < 0.5
                # the prover either keeps the original stored hash or re-stamps the proof root with the new child's hash
                if fix:
                    try:
                        proof = merkle_proof_of(nc)
                    except RCellError:
                        proof = RCell(proof.bits, (nc,), True, strict=False)
                else:
                    proof = RCell(proof.bits, (nc,), True, strict=False)
        elif dk == 'flip-root-hash-field':
            i = 8 + dev['seed'] % 256
            nb = proof.bits[:i] + ('1' if proof.bits[i] == '0' else '0') + proof.bits[i + 1:]
            proof = RCell(nb, (child,), True, strict=False)
        elif dk == 'root-ordinary':
            proof = RCell(proof.bits, (child,) if child.mask == 0 else (pruned_stub(child),), False, strict=False)
        elif dk == 'root-pruned':
            proof = pruned_of(tree, 1) if tree.mask == 0 else pruned_of(st.tree, 1)
        elif dk == 'root-merkle-update':
            proof = merkle_update_of(child, child)
        data = self._encode([proof], op['enc_seed'])
        if dk == 'transit-bitflip':
            data = self._flip_transit(data, dev['seed'], ctx)
        cells, err = self._client_parse(data, ctx)
        if cells is None or len(cells) != 1:
            if dk is None:
                # the honest server's answer (a valid bag written by the reference encoder) could not even be read
                ctx.evaluated(1)
                self.V(ctx, 'honest-proof-rejected', 'generic', 'honest-unreadable', 'an honest generic proof could not be parsed by Cell.from_boc: %r' % (err,))
            self._after_reject(st, op, ctx, 'generic', dk)
            return
        model = self._to_model(cells)
        if op['enc_seed'] & 2:
            ok, res = call(check_proof, cell=cells[0], hash_=expected)      # the keyword spelling of the same call
        else:
            ok, res = call(check_proof, cells[0], expected)
        verdict, reason = None, ''
        if model is not None:
            try:
                rc.verify_generic(model[0], expected)
                verdict = True
                if int(model[0].bits[264:280], 2) != model[0].refs[0].depth_at(0):
                    verdict = None  # carve-out: depth field of the proof root
            except rc.NotProved as e:
                verdict, reason = False, str(e)
            except (RCellError, IndexError, ValueError):
                verdict = None
        self._judge_and_check(ctx, op, 'generic', ok, res, verdict, reason, dk, model)
        if not ok:
            self._after_reject(st, op, ctx, 'generic', dk)

    # ---- block header proof ----
    def q_header(self, st, op, ctx):
        dev = op['dev']
        dk = dev['kind'] if dev else None
        if dk in ('flip-root-hash-field', 'root-ordinary', 'root-pruned', 'root-merkle-update', 'claim-other-cell', 'claim-pruned-carrying-hash', 'claim-skeleton-with-pruned-children',
                  'other-address', 'path-to-account-pruned', 'state-from-other-block', 'missing-root', 'roots-swapped'):
            dk, dev = None, None
        block = st.block
        expected = block.hash
        child, npr = self._prune(block, op['prune_seed'], op['prune_frac'], keep_prefixes=[(2,)])
        if npr:
            ctx.probe('pruned-subtrees')
        if dk:
            ctx.fault('byzantine-' + dk)
        if dk in ('wrong-expected-hash', 'wrong-block-hash'):
            b = bytearray(expected)
            b[dev['seed'] % 32] ^= 1 << (dev['seed'] % 8)
            expected = bytes(b)
        elif dk in ('flip-data-bit', 'change-bit-length', 'swap-refs', 'drop-ref', 'dup-ref', 'substitute-pruned-hash'):
            nc = self._deviate_tree(child, dev, ctx)
            if nc is None:
                dk = None
            else:
                child = nc
        try:
            proof = merkle_proof_of(child)
        except RCellError:
            proof = RCell(merkle_proof_of(st.block).bits, (child,), True, strict=False)
        data = self._encode([proof], op['enc_seed'])
        if dk == 'transit-bitflip':
            data = self._flip_transit(data, dev['seed'], ctx)
        cells, err = self._client_parse(data, ctx)
        if cells is None or len(cells) != 1 or len(cells[0].refs) < 1:
            if dk is None:
                ctx.evaluated(1)
                self.V(ctx, 'honest-proof-rejected', 'header', 'honest-unreadable', 'an honest block-header proof could not be parsed by Cell.from_boc: %r' % (err,))
            self._after_reject(st, op, ctx, 'header', dk)
            return
        model = self._to_model(cells)
        store = random.Random(op['enc_seed']).random() < 0.5
        if op['enc_seed'] & 2:
            ok, res = call(check_block_header_proof, root_cell=cells[0][0], block_hash=expected, store_state_hash=store)
        else:
            ok, res = call(check_block_header_proof, cells[0][0], expected, store)
        verdict, reason = None, ''
        if model is not None:
            try:
                rc.verify_header(model[0].refs[0], expected)
                verdict = True
            except rc.NotProved as e:
                verdict, reason = False, str(e)
            except (RCellError, IndexError, ValueError):
                verdict = None
        if verdict and ok and store:
            # the extracted state hash must be the one the block commits to
            try:
                want = rc.state_hash_of_block(model[0].refs[0])
                if res != want:
                    self.V(ctx, 'wrong-state-hash', 'header', dk or 'honest', 'check_block_header_proof returned a state hash the block does not commit to')
            except rc.NotProved:
                pass
        if verdict and not ok and store:
            verdict = None  # a deviation may have removed the state_update the caller asked to extract
            try:
                rc.state_hash_of_block(model[0].refs[0])
                verdict = True
            except rc.NotProved:
                pass
        self._judge_and_check(ctx, op, 'header', ok, res, verdict, reason, dk, model)
        if not ok:
            self._after_reject(st, op, ctx, 'header', dk)

    # ---- account proof ----
    def q_account(self, st, op, ctx):
        dev = op['dev']
        dk = dev['kind'] if dev else None
        keys = sorted(st.accounts)
        key = keys[op['acct'] % len(keys)]
        acct = st.accounts[key]
        addr_key = key
        path = rc.account_path(st.state, key)
        leaf_path = path
        acct_path = rc.account_path(st.state, key, to_account=True)
        # honest prover: the account cell itself is usually pruned in the state proof (the full state is sent separately)
        prng = random.Random(op['prune_seed'])
        state_child, npr = self._prune(st.state, op['prune_seed'], op['prune_frac'], keep_path=leaf_path)
        if prng.random() < 0.7:
            try:
                state_child = rc.rebuild(state_child, {acct_path: pruned_of(acct, 1)})
                ctx.probe('account-cell-pruned-in-proof')
            except RCellError:
                pass
        if acct_path[-1] == 1:
            ctx.probe('leaf-with-extra-currencies')
            if prng.random() < 0.5:
                # a real prover never visits the leaf's extra-currency dictionary: it arrives pruned
                try:
                    state_child = rc.rebuild(state_child, {leaf_path + (0,): lambda c: pruned_of(c, 1) if c.mask == 0 and not c.special else c})
                    ctx.probe('leaf-extra-currency-dictionary-pruned')
                except RCellError:
                    pass
        block_child, npr2 = self._prune(st.block, op['prune_seed'] ^ 0x5555, op['prune_frac'], keep_prefixes=[(2,)])
        if npr or npr2:
            ctx.probe('pruned-subtrees')
        claimed = acct
        blk_hash = st.block.hash
        if dk:
            ctx.fault('byzantine-' + dk)
        drng = random.Random(dev['seed']) if dev else None
        if dk == 'claim-other-cell':
            others = [a for k, a in st.accounts.items() if k != key]
            claimed = drng.choice(others) if others else RCell(acct.bits[:-1] + ('1' if acct.bits[-1] == '0' else '0'), acct.refs)
        elif dk == 'claim-pruned-carrying-hash':
            claimed = pruned_of(acct, 1)
        elif dk == 'claim-skeleton-with-pruned-children':
            if acct.refs:
                claimed = RCell(acct.bits, [pruned_of(r, 1) for r in acct.refs])
            else:
                claimed = pruned_of(acct, 1)
        elif dk == 'claim-neighbouring-reference':
            # the leaf's other reference (its extra-currency dictionary), or else a child of the account itself
            leaf = st.state
            for i in leaf_path:
                leaf = leaf.refs[i]
            if acct_path[-1] == 1:
                claimed = leaf.refs[0]
            elif acct.refs:
                claimed = acct.refs[drng.randrange(len(acct.refs))]
            else:
                claimed = RCell(leaf.bits, ())
        elif dk == 'wrong-block-hash':
            b = bytearray(blk_hash)
            b[dev['seed'] % 32] ^= 1 << (dev['seed'] % 8)
            blk_hash = bytes(b)
        elif dk == 'other-address':
            addr_key = key ^ (1 << (dev['seed'] % 256))
        elif dk == 'path-to-account-pruned':
            # the prover answered honestly for this account a moment ago (same process); now it sends a proof of the SAME state in
            # which the way down to the account is pruned, with the true account state as the claim: the proof shows nothing about
            # the account, whatever the verifier has seen before
            try:
                honest = self._encode([merkle_proof_of(block_child), merkle_proof_of(state_child)], op['enc_seed'])
                okh, acl = call(lib_cell_from_rcell, acct)
                if okh:
                    call(check_account_proof, honest, BlockIdExt(st.wc, -2 ** 63, 7, st.block.hash, bytes(32)), Address((st.wc, key.to_bytes(32, 'big'))), acl)
                j = 1 + dev['seed'] % len(leaf_path)
                state_child = rc.rebuild(state_child, {leaf_path[:j]: lambda c: pruned_of(c, 1)})
                ctx.probe('account-queried-honestly-then-with-its-path-pruned')
            except (RCellError, Exception):
                dk = None
        elif dk == 'state-from-other-block':
            p2 = rc.account_path(st.state2, key)
            if p2 is None:
                dk = None
            else:
                state_child, _ = self._prune(st.state2, op['prune_seed'], op['prune_frac'], keep_path=p2)
                claimed = rc.find_account_cell(st.state2, key)
        elif dk in ('flip-data-bit', 'substitute-pruned-hash', 'swap-refs'):
            target = drng.choice(['state', 'block'])
            nc = self._deviate_tree(state_child if target == 'state' else block_child, dev, ctx)
            if nc is None:
                dk = None
            elif target == 'state':
                state_child = nc
            else:
                block_child = nc
        roots = []
        for ch, full in ((block_child, st.block), (state_child, st.state)):
            try:
                roots.append(merkle_proof_of(ch))
            except RCellError:
                roots.append(RCell(merkle_proof_of(full).bits, (ch,), True, strict=False))
        if dk == 'root-ordinary':
            i = dev['seed'] % 2
            r = roots[i]
            roots[i] = RCell(r.bits, (pruned_stub(r.refs[0]),) if False else r.refs, False, strict=False)
        elif dk == 'missing-root':
            roots.pop(dev['seed'] % 2)
        elif dk == 'roots-swapped':
            roots.reverse()
        elif dk == 'root-merkle-update':
            i = dev['seed'] % 2
            try:
                roots[i] = merkle_update_of(roots[i].refs[0], roots[i].refs[0])
            except RCellError:
                dk = None
        try:
            data = self._encode(roots, op['enc_seed'])
        except Exception:
            return
        if dk == 'transit-bitflip':
            data = self._flip_transit(data, dev['seed'], ctx)
        blk = BlockIdExt(st.wc, -2 ** 63, 7, blk_hash, bytes(32))
        address = Address((st.wc, addr_key.to_bytes(32, 'big')))
        ok_c, claimed_lib = call(lib_cell_from_rcell, claimed)
        if not ok_c:
            return
        # what the client itself parses (to judge) - the library call below parses the same bytes again
        cells, err = self._client_parse(data, ctx)
        if op['enc_seed'] & 2:
            ok, res = call(check_account_proof, proof=data, shrd_blk=blk, address=address, account_state_root=claimed_lib, return_account_descr=bool(op['enc_seed'] & 1))
        else:
            ok, res = call(check_account_proof, data, blk, address, claimed_lib, bool(op['enc_seed'] & 1))
        if cells is None:
            if ok:
                self.V(ctx, 'forged-proof-accepted', 'account', 'unparseable', 'check_account_proof accepted bytes that Cell.from_boc rejects')
            elif dk is None:
                ctx.evaluated(1)
                self.V(ctx, 'honest-proof-rejected', 'account', 'honest-unreadable', 'an honest account proof could not be parsed by Cell.from_boc: %r' % (err,))
            self._after_reject(st, op, ctx, 'account', dk)
            return
        model = self._to_model(cells)
        verdict, reason = None, ''
        if model is not None:
            try:
                rc.verify_account(model, blk_hash, addr_key, claimed)
                verdict = True
            except rc.NotProved as e:
                verdict, reason = False, str(e)
            except (RCellError, IndexError, ValueError):
                verdict = None
        self._judge_and_check(ctx, op, 'account', ok, res, verdict, reason, dk, model)
        if verdict and ok and (op['enc_seed'] & 1) and res is not None:
            # the returned descriptor is the queried account's
            got = getattr(res, 'cell', None)
            if got is None or got.refs[0].get_hash(0) != acct.hash:
                self.V(ctx, 'wrong-account-returned', 'account', dk or 'honest', 'check_account_proof returned another account\'s descriptor')
        if not ok:
            self._after_reject(st, op, ctx, 'account', dk)

    # ---- healing: retry against the honest server ----
    def _after_reject(self, st, op, ctx, what, dk):
        ctx.probe('rejected-then-retried')
        if what == 'generic':
            proof = merkle_proof_of(self._prune(st.tree, op['prune_seed'] + 1, op['prune_frac'])[0])
            ok, res = call(lambda: check_proof(Cell.one_from_boc(self._encode([proof], op['enc_seed'] + 1)), st.tree.hash))
        elif what == 'header':
            proof = merkle_proof_of(self._prune(st.block, op['prune_seed'] + 1, op['prune_frac'], keep_prefixes=[(2,)])[0])
            ok, res = call(lambda: check_block_header_proof(Cell.one_from_boc(self._encode([proof], op['enc_seed'] + 1))[0], st.block.hash, True))
        else:
            keys = sorted(st.accounts)
            key = keys[op['acct'] % len(keys)]
            path = rc.account_path(st.state, key)
            roots = [merkle_proof_of(self._prune(st.block, op['prune_seed'] + 1, op['prune_frac'], keep_prefixes=[(2,)])[0]),
                     merkle_proof_of(self._prune(st.state, op['prune_seed'] + 1, op['prune_frac'], keep_path=path)[0])]
            data = self._encode(roots, op['enc_seed'] + 1)
            ok, res = call(check_account_proof, data, BlockIdExt(st.wc, -2 ** 63, 7, st.block.hash, bytes(32)), Address((st.wc, key.to_bytes(32, 'big'))),
                           lib_cell_from_rcell(st.accounts[key]))
        ctx.evaluated(1)
        if not ok:
            self.V(ctx, 'liveness-after-heal', what, 'honest-retry', 'after a rejected %s proof the retry against the honest server was rejected too: %r' % (what, res))


def pruned_stub(c):
    return pruned_of(c, 1) if c.mask == 0 else c
