"""WIRE worlds: bytes/symbols damaged in a medium between a producer and the library's parser.

BocWireWorld (C05): foreign conforming encoder -> Medium -> Cell.from_boc.
AddrWireWorld (C13): Address.to_str -> text channel -> Address(str).
Both enumerate the fault set per sampled input exhaustively (fault_enumeration).
"""
import base64
import random

from detsim.core import World, Violation
from refmodel import boc as refboc, tlb
from refmodel.rcell import RCell, RCellError, pruned_of, merkle_proof_of, merkle_update_of, library_ref_of
from .common import call, struct_diff, Cell, Address
from .build import _rbits

B64_STD = 'ABCDEFGHIJKLMNOPQRSTUVWXYZabcdefghijklmnopqrstuvwxyz0123456789+/'
B64_URL = 'ABCDEFGHIJKLMNOPQRSTUVWXYZabcdefghijklmnopqrstuvwxyz0123456789-_'


def make_dag(seed, ncells, exotic):
    """Deterministic random DAG of about ncells cells (RCells); returns list of all cells, last = main root."""
    rng = random.Random(seed)
    cells = []
    for i in range(ncells):
        nb = rng.choice([0, 1, 7, 8, 9, 16, 31, 32, 100, 255, 256, 1023, rng.randint(0, 1023)])
        k = rng.choice([0, 0, 1, 1, 2, 2, 3, 4]) if cells else 0
        refs = [rng.choice(cells) for _ in range(k)] if cells else []
        if rng.random() < 0.2 and cells:
            refs = [cells[-1]] + refs[:3]
        try:
            c = RCell(_rbits(rng, nb), refs)
        except RCellError:
            c = RCell(_rbits(rng, nb), [])
        if exotic and cells and rng.random() < 0.25:
            try:
                kind = rng.choice(['proof', 'proof', 'library', 'update', 'nested', 'nested3', 'lookalike', 'lookalike'])
                tgt = rng.choice(cells)
                if kind == 'library':
                    c = RCell('1', (library_ref_of(tgt.hash),))
                elif kind == 'lookalike':
                    # an exotic cell and an ordinary cell with bit-identical data (and the same children) are different cells;
                    # a conforming encoder emits both
                    if rng.random() < 0.5 or tgt.mask:
                        ex = library_ref_of(tgt.hash)
                        pair = [ex, RCell(ex.bits)]
                        rng.shuffle(pair)
                        c = RCell(_rbits(rng, rng.choice([0, 5])), pair + ([tgt] if rng.random() < 0.5 else []))
                    else:
                        ex = pruned_of(tgt, 1)
                        pair = [ex, RCell(ex.bits)]
                        rng.shuffle(pair)
                        c = merkle_proof_of(RCell('1', pair))
                        inner = merkle_proof_of(tgt)
                        if rng.random() < 0.5:
                            # a Merkle proof cell next to an ordinary cell with the same bits and the same child
                            c = RCell('', (c, inner, RCell(inner.bits, inner.refs)))
                elif kind == 'update' and tgt.mask == 0 and c.mask == 0:
                    c = merkle_update_of(RCell('0', (pruned_of(tgt, 1),)), RCell('1', (pruned_of(c, 1), tgt)))
                elif kind == 'nested' and tgt.mask == 0 and c.mask == 0:
                    # merkle proof inside a merkle proof: pruned cells of mask 2 (gap), 3 and 1
                    y = RCell('0110', (pruned_of(tgt, 2), pruned_of(pruned_of(c, 1), 2)))     # mask 3
                    inner = merkle_proof_of(y)                                                # mask 1
                    c = merkle_proof_of(RCell('10', (inner, pruned_of(tgt, 1))))              # mask 0
                elif kind == 'nested3' and tgt.mask == 0 and c.mask == 0:
                    # three Merkle levels: pruned cells of every mask that has level 3 (0b100, 0b101, 0b110 - gaps - and 0b111)
                    ps = [pruned_of(RCell('1', (pruned_of(tgt, 2),)), 3), pruned_of(RCell('0', (pruned_of(c, 1),)), 3), pruned_of(tgt, 3),
                          pruned_of(RCell('', (pruned_of(pruned_of(c, 1), 2),)), 3)]
                    rng.shuffle(ps)
                    z = RCell('0110', ps[:rng.choice([1, 2, 4])])
                    c = merkle_proof_of(RCell('10', (merkle_proof_of(RCell('1', (merkle_proof_of(z),))),)))
                elif tgt.mask == 0:
                    c = merkle_proof_of(RCell('01', (pruned_of(tgt, 1),) + ((c,) if c.mask == 0 else ())))
            except RCellError:
                pass
        if c.mask != 0:
            continue
        cells.append(c)
    if not cells:
        cells.append(RCell(''))
    return cells


def draw_freedoms(rng, cells):
    magic = rng.choice(['generic'] * 6 + ['idx', 'idx_crc'])
    f = {'magic': magic, 'order_seed': rng.getrandbits(32)}
    if magic == 'generic':
        f['has_idx'] = rng.random() < 0.5
        f['has_crc'] = rng.random() < 0.6
        f['has_cache_bits'] = f['has_idx'] and rng.random() < 0.5
        f['cache_seed'] = rng.getrandbits(16)
        f['nroots'] = rng.choice([1, 1, 1, 2, 3])
        f['root_seed'] = rng.getrandbits(16)
    else:
        f['has_idx'], f['has_crc'], f['has_cache_bits'], f['nroots'] = True, magic == 'idx_crc', False, 1
    f['size_extra'] = rng.choice([0, 0, 0, 1, 2, 3])
    f['off_extra'] = rng.choice([0, 0, 0, 1, 3, 7])
    f['hashes'] = rng.choice(['none', 'none', 'all', 'some'])
    f['hash_seed'] = rng.getrandbits(16)
    return f


def do_encode(cells, f, ref_override=None):
    rng = random.Random(f.get('root_seed', 0))
    main = cells[-1]
    roots = [main]
    for _ in range(f['nroots'] - 1):
        roots.append(rng.choice(cells))
    # serialized_boc requires roots + absent <= cells (a root may be listed twice, but never more roots than cells)
    while len(roots) > 1 and len(roots) > len(set(c.hash for r in roots for c in r.walk())):
        roots.pop()
    order = refboc.random_topo_order(roots, random.Random(f['order_seed']))
    n = len(order)
    size = min(4, refboc.min_bytes(n) + f['size_extra'])
    wh = None
    if f['hashes'] == 'all':
        wh = True
    elif f['hashes'] == 'some':
        r2 = random.Random(f['hash_seed'])
        wh = set(c.hash for c in order if r2.random() < 0.4)
    cache_set = set()
    if f['has_cache_bits']:
        r3 = random.Random(f['cache_seed'])
        cache_set = set(i for i in range(n) if r3.random() < 0.3)
    kw = dict(magic=f['magic'], has_idx=f['has_idx'], has_crc=f['has_crc'], has_cache_bits=f['has_cache_bits'], cache_set=cache_set,
              size=size, order=order, with_hashes=wh, ref_override=ref_override)
    data = refboc.encode(roots, **kw)
    if f['off_extra']:
        need = refboc.min_bytes(len(data))
        try:
            data = refboc.encode(roots, off_bytes=min(8, need + f['off_extra']), **kw)
        except refboc.BocFormatError:
            pass
    return data, roots, order, size


def apply_fault(data, fault):
    k = fault['kind']
    if k == 'none':
        return data
    if k == 'truncate':
        return data[:fault['len']]
    if k == 'extend':
        return data + bytes.fromhex(fault['tail'])
    if k == 'flip':
        b = bytearray(data)
        b[fault['bit'] // 8] ^= 0x80 >> (fault['bit'] % 8)
        return bytes(b)
    raise AssertionError(k)


class BocWireWorld(World):
    name = 'WIRE'
    chunk = 10
    real_code = ['pytoniq_core.boc.deserialize.Boc (header, cell parsing, graph rebuild)', 'pytoniq_core.boc.cell.Cell.from_boc', 'pytoniq_core.crypto.crc.crc32c']
    stubs = ['ForeignEncoder: refmodel/boc.py encode() drawing every encoder freedom', 'Medium: truncation, extension, bit flip; Byzantine encoder writing bad reference indices with a recomputed CRC',
             'strict reference decoder as the validity oracle']

    def __init__(self, prop, tier):
        super().__init__(prop, tier)
        q = tier == 'quick'
        self.legs = [('fault-free', 6000 if q else 200000), ('faults', 1200 if q else 40000), ('big-fault-free', 40 if q else 600), ('big-crc', 4 if q else 24)]
        self.run_timeout = 240
        self.budget = {'quick': 110, 'thorough': 1500}

    def get_legs(self):
        return self.legs

    def rule(self):
        return ('Leg fault-free: seeded DAG (1..60 cells, sharing, exotic cells incl. nested Merkle levels; leg big: up to 5000 cells) encoded by the reference encoder under drawn freedoms '
                '(3 magics, index, cache bits, CRC, stored hashes none/some/all, size +0..3, offset width +0..7, random topological order, 1..3 roots); Cell.from_boc must return exactly '
                'the denoted roots (count, order, structure, hash). Leg faults, EXHAUSTIVE per sampled encoding of length L: all L proper prefixes, 5 extensions, all 8L single-bit flips when '
                'the encoding carries a CRC, and for every reference slot the values self / every earlier index / cells_num / field maximum, and for every root-list entry cells_num / cells_num+1 / field maximum, written by a Byzantine encoder that recomputes the CRC. '
                'The strict decoder is run on each damaged input: if it rejects, the library must raise; if it accepts nothing is asserted. '
                'evaluations = parses executed; non-trivial = encodings on which at least one fault was delivered or a non-default freedom was used; distinct = distinct (freedom set, fault-kind set, shape class).')

    def assumptions(self):
        return ['refmodel/boc.py strict decoder/encoder is the trusted base (validated on the pinned main-net block)',
                'encodings are seeded samples; the fault set per encoding is exhaustive for the four classes the statement lists',
                'CRC-32C detects every single-bit error; a flip that clears the CRC flag leaves four surplus bytes']

    BIG_SIZES = [70_000, 300_000, 1_100_000, 2_200_000]

    def make_config(self, rng, leg, run_index):
        if leg == 'big-crc':
            # 'any single-bit corruption of CRC-protected input' also of LARGE input: bags of 64 KiB .. 4 MiB (a checksum is the first
            # thing an implementation is tempted to skip or sample when the input gets big)
            sizes = self.BIG_SIZES + ([4_300_000] if self.tier == 'thorough' else [])
            return {'bytes': sizes[run_index % len(sizes)] + rng.randrange(5000), 'dag_seed': rng.getrandbits(32), 'leg': leg, 'magic': rng.choice(['generic', 'generic', 'idx_crc'])}
        if leg == 'big-fault-free':
            return {'ncells': rng.choice([300, 1000, 5000]), 'exotic': False, 'dag_seed': rng.getrandbits(32), 'leg': leg}
        if leg == 'faults':
            return {'ncells': rng.choice([1, 1, 2, 3, 5, 8, 12, 20]), 'exotic': rng.random() < 0.3, 'dag_seed': rng.getrandbits(32), 'leg': leg}
        return {'ncells': rng.choice([1, 2, 3, 5, 10, 20, 40, 60]), 'exotic': rng.random() < 0.4, 'dag_seed': rng.getrandbits(32), 'leg': leg}

    def V(self, ctx, invariant, opkind, klass, msg):
        return ctx.violation(Violation(self.prop, invariant, opkind, klass, msg))

    # the whole run is: one encode op, then deliveries
    def _big_bag(self, cfg):
        r = random.Random(cfg['dag_seed'])
        n_leaves = cfg['bytes'] // 131 + 1
        level = [RCell(''.join('01'[b] for b in [r.getrandbits(1) for _ in range(8)]) + bin(r.getrandbits(1008) | (1 << 1008))[3:]) for _ in range(n_leaves)]
        while len(level) > 1:
            level = [RCell(bin(r.getrandbits(16) | (1 << 16))[3:], tuple(level[i:i + 4])) for i in range(0, len(level), 4)]
        root = level[0]
        kw = dict(magic=cfg['magic'], has_idx=cfg['magic'] != 'generic', has_crc=True)
        return root, refboc.encode([root], **kw)

    def run_big_crc(self, ctx, ops=None):
        cfg = ctx.cfg
        root, data = self._big_bag(cfg)
        L = len(data)
        ctx.tag('big-crc', L >> 16, cfg['magic'])
        ctx.probe('crc-protected-bag-of-%s' % ('<256KiB' if L < 2 ** 18 else '<1MiB' if L < 2 ** 20 else '<2MiB' if L < 2 ** 21 else '>=2MiB'))
        if ops is None:
            rng = ctx.rng
            ops = [{'op': 'deliver-big', 'bit': None}]
            for pos in (rng.randrange(40, L - 4), rng.randrange(L // 2, L - 4), L - 1 - rng.randrange(4), rng.randrange(5, 30), L - 40):
                ops.append({'op': 'deliver-big', 'bit': 8 * pos + rng.randrange(8)})
            ops.append({'op': 'deliver-big', 'bit': None})
        for o in ops:
            if o['op'] != 'deliver-big':
                continue
            ctx.op(o)
            ctx.evaluated(1)
            if o['bit'] is None:
                ok, res = call(Cell.from_boc, data)
                if not ok or len(res) != 1 or res[0].hash != root.hash:
                    self.V(ctx, 'valid-rejected' if not ok else 'roots', 'from_boc', 'big-bag', 'a well-formed %d-byte CRC-protected bag %s' % (L, 'was rejected: %r' % (res,) if not ok else 'parsed to another root'))
                    return
                continue
            b = bytearray(data)
            b[o['bit'] // 8] ^= 0x80 >> (o['bit'] % 8)
            ctx.fault('flip')
            ok, res = call(Cell.from_boc, bytes(b))
            if ok:
                self.V(ctx, 'corrupt-accepted', 'from_boc', 'flip-in-big-bag', 'one flipped bit (bit %d of %d bytes) in a CRC-protected bag was accepted' % (o['bit'], L))
                return

    def run(self, ctx):
        cfg = ctx.cfg
        if cfg['leg'] == 'big-crc':
            return self.run_big_crc(ctx)
        cells = make_dag(cfg['dag_seed'], cfg['ncells'], cfg['exotic'])
        f = draw_freedoms(ctx.rng, cells)
        enc_op = {'op': 'encode', 'freedoms': f}
        ctx.op(enc_op)
        data, roots, order, size = do_encode(cells, f)
        self._freedom_probes(ctx, f, order, size)
        ctx.tag(f['magic'], f['has_idx'], f['has_crc'], f['has_cache_bits'], f['nroots'], f['size_extra'], f['off_extra'], f['hashes'], len(order), cfg['exotic'])
        self._deliver(ctx, cells, f, data, roots, {'kind': 'none'}, enc_op)
        if cfg['leg'] != 'faults':
            return
        L = len(data)
        rng = ctx.rng
        for ln in range(L):
            self._deliver(ctx, cells, f, data, roots, {'kind': 'truncate', 'len': ln}, enc_op)
        for tail in (b'\x00', bytes([rng.getrandbits(8)]), bytes(rng.getrandbits(8) for _ in range(4)), data, data[:1]):
            self._deliver(ctx, cells, f, data, roots, {'kind': 'extend', 'tail': tail.hex()}, enc_op)
        if f['has_crc']:
            for bit in range(8 * L):
                self._deliver(ctx, cells, f, data, roots, {'kind': 'flip', 'bit': bit}, enc_op)
        # the intact encoding must still parse after all the damaged deliveries (no state between calls)
        self._deliver(ctx, cells, f, data, roots, {'kind': 'none'}, enc_op)
        # Byzantine encoder: bad reference indices, CRC recomputed
        n = len(order)
        maxv = (1 << (8 * size)) - 1
        for ci, c in enumerate(order):
            for slot in range(len(c.refs)):
                vals = [ci] + list(range(ci)) + [n, maxv]
                for v in vals:
                    self._deliver(ctx, cells, f, data, roots, {'kind': 'badref', 'cell': ci, 'slot': slot, 'value': v}, enc_op)
        # ... and dangling entries in the root list (generic magic only: the legacy forms have no root list)
        if f['magic'] == 'generic':
            for k in range(len(roots)):
                for v in (n, n + 1, maxv):
                    self._deliver(ctx, cells, f, data, roots, {'kind': 'badroot', 'root': k, 'value': v}, enc_op)

    def replay(self, ctx, ops):
        cfg = ctx.cfg
        if cfg.get('leg') == 'big-crc':
            return self.run_big_crc(ctx, ops)
        enc = next((o for o in ops if o['op'] == 'encode'), None)
        if enc is None:
            return
        cells = make_dag(cfg['dag_seed'], cfg['ncells'], cfg['exotic'])
        f = enc['freedoms']
        ctx.op(enc)
        data, roots, order, size = do_encode(cells, f)
        for o in ops:
            if o['op'] == 'deliver':
                self._deliver(ctx, cells, f, data, roots, o['fault'], enc, record=True, times=o.get('times', 1))

    def _freedom_probes(self, ctx, f, order, size):
        if f['magic'] != 'generic':
            ctx.probe('legacy-magic-' + f['magic'])
        if f['hashes'] != 'none':
            ctx.probe('stored-hashes')
            if any(c.mask >= 2 for c in order):
                ctx.probe('stored-hashes-mask>=2')
        if f['nroots'] > 1:
            ctx.probe('several-roots')
        if f['size_extra']:
            ctx.probe('wider-size-field')
        if f['off_extra']:
            ctx.probe('wider-offset-field')
        if f['has_cache_bits']:
            ctx.probe('cache-bits')
        if any(c.special for c in order):
            ctx.probe('exotic-cells')
        if any(c.mask >= 2 for c in order):
            ctx.probe('level-mask>=2')

    def _deliver(self, ctx, cells, f, data, roots, fault, enc_op, record=False, times=None):
        kind = fault['kind']
        if times is None:
            # every 37th damaged input is delivered twice (a duplicating medium): the verdict must not change
            times = 2 if (kind != 'none' and (ctx.evals + 1) % 37 == 0) else 1
        if kind == 'badref':
            damaged = do_encode(cells, f, ref_override={(fault['cell'], fault['slot']): fault['value']})[0]
        elif kind == 'badroot':
            damaged = do_encode(cells, f, ref_override={('root', fault['root']): fault['value']})[0]
        else:
            damaged = apply_fault(data, fault)
        if kind != 'none':
            ctx.fault(kind)
        ctx.evaluated(1)
        if record:
            ctx.op({'op': 'deliver', 'fault': fault, 'times': times})
        # the medium may carry the bag as text: the parser takes hex (either case) and base64 strings as well as bytes
        import zlib
        form = ('bytes', 'bytes', 'bytes', 'hex', 'HEX', 'b64')[zlib.crc32(damaged) % 6]
        wire = damaged if form == 'bytes' else damaged.hex() if form == 'hex' else damaged.hex().upper() if form == 'HEX' else base64.b64encode(damaged).decode()
        if form != 'bytes':
            ctx.probe('bag-carried-as-text/' + form)
        ok, res = call(Cell.from_boc, wire)
        for _ in range(times - 1):
            if ok:
                break
            ctx.fault('duplicate')
            ok, res = call(Cell.from_boc, wire)
        self._times = times
        if kind == 'none':
            klass = self._freedom_class(f, roots)
            try:
                refboc.decode(damaged)
            except refboc.BocFormatError as e:   # the trusted base disagrees with itself: never report that as the library's fault
                raise AssertionError('reference encoder produced a bag its own strict decoder rejects: %r' % (e,))
            if not ok:
                self._fail(ctx, enc_op, fault, 'valid-rejected', klass, 'a well-formed BoC (%s, %d bytes) was rejected: %r' % (klass, len(data), res))
                return
            if len(res) != len(roots):
                self._fail(ctx, enc_op, fault, 'roots', klass, 'parser returned %d roots, the encoding denotes %d' % (len(res), len(roots)))
                return
            for i, (c, r) in enumerate(zip(res, roots)):
                d = struct_diff(c, r)
                if d is None and c.hash != r.hash and not any(x.mask >= 2 for x in r.walk()):
                    d = 'hash differs'  # (per-level hashes of masks >= 2 are C02's subject, not compared here)
                if d:
                    self._fail(ctx, enc_op, fault, 'roots', klass, 'root %d differs from the denoted cell: %s' % (i, d))
                    return
            # the receiver works on what it got (empties the list while walking the DAG, or turns it round) and then reads the same
            # bag again - through Cell.from_boc, and through one parser object asked twice: still exactly the denoted roots
            want = [c.hash for c in res]
            if not isinstance(res, list):
                return
            (res.clear if len(data) % 2 else res.reverse)()
            ctx.probe('receiver-edits-the-root-list-then-reads-the-bag-again')

            def twice():
                from pytoniq_core.boc.deserialize import Boc
                b = Boc(damaged)
                first = b.deserialize()
                got1 = [c.hash for c in first]
                (first.clear if len(data) % 2 else first.reverse)()
                return got1, [c.hash for c in b.deserialize()]
            ok2, res2 = call(Cell.from_boc, damaged)
            ok3, pair = call(twice)
            bad = None
            if not ok2 or [c.hash for c in res2] != want:
                bad = 'Cell.from_boc of the same bytes ' + ('raised %r' % (res2,) if not ok2 else 'returned other roots')
            elif ok3 and pair[0] == want and pair[1] != want:
                bad = 'the second deserialize() of one Boc object returned other roots'
            if bad:
                self._fail(ctx, enc_op, fault, 'roots-on-second-read', klass, 'after the receiver edited the list of roots it had been given, ' + bad)
            return
        # damaged input: is it really invalid?
        try:
            refboc.decode(damaged)
            ctx.count('damaged-but-still-valid')
            return
        except refboc.BocFormatError:
            pass
        if ok:
            sub = kind
            if kind == 'badref':
                v, ci = fault['value'], fault['cell']
                sub = 'self-reference' if v == ci else ('backward-reference' if v < ci else 'dangling-reference')
            if kind == 'badroot':
                sub = 'dangling-root'
            if kind == 'flip':
                ctx.probe('flip-accepted')
            self._fail(ctx, enc_op, fault, 'corrupt-accepted', sub, 'damaged input (%s of a %d-byte encoding) returned %d cells instead of raising' % (_fdesc(fault), len(data), len(res)))

    def _fail(self, ctx, enc_op, fault, invariant, klass, msg):
        keep = list(ctx.ops)
        ctx.ops = [enc_op, {'op': 'deliver', 'fault': fault, 'times': getattr(self, '_times', 1)}]
        try:
            self.V(ctx, invariant, 'from_boc', klass, msg)
        finally:
            # a known finding returns: continue the enumeration with the original trace
            pass
        ctx.ops = keep

    def _freedom_class(self, f, roots):
        if f['magic'] != 'generic':
            return 'legacy-magic'
        if f['hashes'] != 'none':
            return 'stored-hashes'
        if f['size_extra']:
            return 'wide-size'
        if f['off_extra']:
            return 'wide-offset'
        if f['nroots'] > 1:
            return 'several-roots'
        if f['has_cache_bits']:
            return 'cache-bits'
        return 'plain'


def _fdesc(fault):
    return ', '.join('%s=%s' % (k, (v if len(str(v)) < 24 else str(v)[:24] + '..')) for k, v in fault.items())


# =========================================================================================
# C13: address text
# =========================================================================================

VARIANTS = [(b, t, u) for b in (True, False) for t in (False, True) for u in (True, False)]


def _crc16_back16(t):
    """The 16-bit register value y with  advance-16-zero-bits(y) == t  for CRC-16/XMODEM (polynomial 0x1021, which has bit 0
    set, so the low bit of a state tells whether the last step folded the polynomial in)."""
    s = t
    for _ in range(16):
        if s & 1:
            s = ((s ^ 0x1021) >> 1) | 0x8000
        else:
            s >>= 1
    return s


class _AppAddress(Address):
    """What an application deriving from Address looks like."""


class AddrWireWorld(World):
    name = 'WIRE-TEXT'
    chunk = 4
    real_code = ['pytoniq_core.boc.address.Address (__init__, is_hex, is_b64, to_str, __eq__, __hash__)', 'pytoniq_core.crypto.crc.crc16']
    stubs = ['TextChannel substituting one symbol', 'reference friendly-address layout + bitwise CRC-16/XMODEM (refmodel/boc.py) as the rendering oracle']

    def __init__(self, prop, tier):
        super().__init__(prop, tier)
        q = tier == 'quick'
        self.legs = [('roundtrip', 256), ('substitution', 96 if q else 2500), ('crowd', 400 if q else 20000), ('checksum', 1200 if q else 60000), ('deployed', 8 if q else 96)]
        self.budget = {'quick': 100, 'thorough': 1500}

    def get_legs(self):
        return self.legs

    def rule(self):
        return ('Leg roundtrip: run i takes workchain i-128 (all 256 workchains, exhaustive) with a seeded account id (plus all-zero/all-ones): raw form and all 8 friendly variants are rendered, '
                'checked against the reference layout (tag, signed workchain byte, account, CRC-16/XMODEM), parsed back: equal address, same bounceable/test-only flags, equal hash(). '
                'Leg substitution, EXHAUSTIVE per sampled address and variant: all 48 positions x 63 other characters of the variant\'s own alphabet; every substituted text must be rejected. '
                'Leg crowd: one process renders and parses a FAMILY of related addresses interleaved (neighbours (wc+d, account-d), accounts differing by multiples of 2^61-1 or in one bit, '
                'the same account in several workchains) in seeded order and variants: every text must be the reference layout of its own address and parse back to it, whatever was rendered or parsed before. '
                'Leg checksum: the last two bytes of the account id are solved (the CRC is linear) so that one variant\'s text carries a chosen checksum - 0000, ffff, one zero byte, single bits - '
                'then round trip, relays to three other variants and every substitution in the four checksum characters and the first two. '
                'Leg deployed: the receiver is a fresh interpreter started the way services are started (-O, -OO, -I, -W error, -S, -X dev in turn): the nine intact texts parse to the address and all 3 024 '
                'substitutions of one variant are refused there too. '
                'evaluations = parses; non-trivial = every run (each delivers faults or covers a distinct workchain); distinct = distinct (workchain class, variant set).')

    def assumptions(self):
        return ['within one base64 alphabet a single-character substitution changes 1..6 contiguous bits of the 36-byte payload, a burst CRC-16 always detects',
                'cross-alphabet -/+ and _// are the same sextet and are not substitutions', 'account ids are seeded samples; workchains are exhaustive']

    def make_config(self, rng, leg, run_index):
        if leg == 'roundtrip':
            acc = [bytes(32), b'\xff' * 32][run_index % 7] if run_index % 7 < 2 else bytes(rng.getrandbits(8) for _ in range(32))
            return {'wc': run_index - 128, 'acc': acc.hex(), 'leg': leg, 'origin': self.ORIGINS[(run_index // 3) % len(self.ORIGINS)], 'irregular': run_index % 2}
        if leg == 'checksum':
            # the account id's last two bytes are solved so that the friendly form of ONE variant carries a chosen checksum
            return {'wc': rng.choice([-1, 0, 0, -128, 127, rng.randint(-128, 127)]), 'acc': bytes(rng.getrandbits(8) for _ in range(32)).hex(), 'leg': leg, 'variant': rng.randrange(8),
                    'target': rng.choice([0x0000, 0x0000, 0xFFFF, 0x0001, 0x8000, 0x0100, 0x00FF, 0xFF00, 0x0080, rng.getrandbits(8), rng.getrandbits(8) << 8, 0xFBFF, 0xFFEF])}
        if leg == 'deployed':
            return {'wc': rng.choice([-1, 0, 0, -128, 127, rng.randint(-128, 127)]), 'acc': bytes(rng.getrandbits(8) for _ in range(32)).hex(), 'leg': leg, 'variant': rng.randrange(8),
                    'flags': self.DEPLOYMENTS[run_index % len(self.DEPLOYMENTS)]}
        if leg == 'crowd':
            return {'wc': rng.choice([-1, 0, 0, -127, 126, rng.randint(-127, 126)]), 'acc': (rng.choice([5, 2 ** 255, 2 ** 256 - 2 ** 62, rng.getrandbits(256) | 2 ** 70]) - 0).to_bytes(32, 'big').hex(), 'leg': leg,
                    'family': rng.choice(['diagonal', 'mersenne', 'bitflip', 'workchains', 'mixed']), 'irregular': rng.random() < 0.5}
        return {'wc': rng.choice([-1, 0, 0, -128, 127, rng.randint(-128, 127)]), 'acc': bytes(rng.getrandbits(8) for _ in range(32)).hex(), 'leg': leg,
                'variants': sorted(rng.sample(range(8), 3))}

    def V(self, ctx, invariant, opkind, klass, msg):
        return ctx.violation(Violation(self.prop, invariant, opkind, klass, msg))

    def _render(self, ctx, a, v):
        b, t, u = VARIANTS[v]
        if (a.wc + v) % 2:
            return call(a.to_str, is_user_friendly=True, is_url_safe=u, is_bounceable=b, is_test_only=t)     # keyword spelling
        return call(a.to_str, True, u, b, t)

    # ---- crowd leg: several related addresses in one process ----
    def _family(self, rng, cfg):
        wc, h = cfg['wc'], int(cfg['acc'], 16)
        M = 2 ** 256
        fam = cfg['family']
        out = [(wc, h)]
        if fam in ('diagonal', 'mixed'):
            out += [(wc + d, (h - d) % M) for d in (-1, 1, 2, -2) if -128 <= wc + d <= 127]
        if fam in ('mersenne', 'mixed'):
            out += [(wc, (h + k * (2 ** 61 - 1)) % M) for k in (1, -1, 2)] + [(wc, (h + 2 ** 64) % M), (wc, (h + 2 ** 61) % M)]
        if fam in ('bitflip', 'mixed'):
            out += [(wc, h ^ (1 << b)) for b in (0, 7, 8, 255, rng.randrange(256))]
        if fam in ('workchains', 'mixed'):
            out += [(w, h) for w in (-1, 0, -128, 127, wc ^ 1 if -128 <= (wc ^ 1) <= 127 else 0)]
        seen, res = set(), []
        for m in out:
            if m not in seen:
                seen.add(m)
                res.append(m)
        return res

    def run_crowd(self, ctx, ops=None):
        if ops is None:
            fam = self._family(ctx.rng, ctx.cfg)
            ops = [{'op': 'member', 'wc': w, 'acc': h.to_bytes(32, 'big').hex(), 'origin': ctx.rng.choice(self.ORIGINS)} for w, h in fam]
            vs = ctx.rng.sample(range(8), 3) + ['raw']
            renders = [{'op': 'render_member', 'i': i, 'variant': v} for v in vs for i in range(len(fam))]
            if ctx.rng.random() < 0.5:
                ctx.rng.shuffle(renders)
            ops += renders
            ctx.tag(ctx.cfg['family'], len(fam))
        members = []
        ctx.keep_history = True
        try:
            for o in ops:
                if o['op'] == 'member':
                    ctx.op(o)
                    members.append({'op': 'address', 'wc': o['wc'], 'acc': o['acc'], 'origin': o.get('origin', 'tuple')})
                elif o['op'] == 'render_member' and members:
                    ctx.op(o)
                    ctx.fault('related-address-handled-earlier-in-process') if len(ctx.ops) > len(members) + 1 else None
                    self._check(ctx, members[o['i'] % len(members)], {'op': 'render', 'variant': o['variant']})
        finally:
            ctx.keep_history = False

    # ---- deployed leg: the receiving process is started the way services are started ----
    DEPLOYMENTS = [['-O'], ['-OO'], ['-O', '-X', 'dev'], ['-OO', '-W', 'error'], ['-I'], ['-X', 'utf8', '-B'], ['-W', 'error'], ['-O', '-S']]

    def _child_parse(self, flags, texts):
        """Address(text) for every text in a fresh interpreter started with `flags`; per text None (refused) or (wc, account hex)."""
        import json
        import os
        import subprocess
        import sys
        from detsim import lib as lib_mod
        code = ('import sys, json\n'
                'sys.path[:0] = %r\n'
                'from pytoniq_core.boc.address import Address\n'
                'out = []\n'
                'for t in json.load(sys.stdin):\n'
                '    try:\n'
                '        a = Address(t)\n'
                '        out.append([a.wc, a.hash_part.hex(), bool(a.is_bounceable), bool(a.is_test_only)])\n'
                '    except Exception:\n'
                '        out.append(None)\n'
                'json.dump(out, sys.stdout)\n') % ([lib_mod.REPO] + [p for p in sys.path if 'site-packages' in p],)
        env = dict(os.environ, PYTHONDONTWRITEBYTECODE='1', PYTHONHASHSEED='0')
        p = subprocess.run([sys.executable] + list(flags) + ['-c', code], input=json.dumps(texts), capture_output=True, text=True, env=env, timeout=300)
        if p.returncode != 0:
            raise RuntimeError('child interpreter %r failed: %s' % (flags, p.stderr[-600:]))
        return json.loads(p.stdout)

    def run_deployed(self, ctx, ops=None):
        """The receiver is not this process but a service started with the interpreter options deployments use (-O / -OO strip assert
        statements and docstrings, -I isolates, -W error turns warnings into errors, ...).  Those are the operator's choice, not the
        library's: every intact text parses to the address, every text with one substituted character is refused - there too."""
        cfg = ctx.cfg
        if ops is None:
            aop = {'op': 'address', 'wc': cfg['wc'], 'acc': cfg['acc']}
            dop = {'op': 'deploy', 'flags': cfg['flags']}
            v = cfg['variant']
            text = self._want(cfg['wc'], bytes.fromhex(cfg['acc']), v)
            alph = B64_URL if VARIANTS[v][2] else B64_STD
            subs = [{'op': 'substitute', 'variant': v, 'pos': pos, 'char': ch} for pos in range(48) for ch in alph if ch != text[pos]]
            intact = [{'op': 'intact', 'variant': w} for w in ['raw'] + list(range(8))]
        else:
            aop = next((o for o in ops if o['op'] == 'address'), None)
            dop = next((o for o in ops if o['op'] == 'deploy'), None)
            if aop is None or dop is None:
                return
            subs = [o for o in ops if o['op'] == 'substitute' and 'variant' in o]
            intact = [o for o in ops if o['op'] == 'intact']
        wc, acc = aop['wc'], bytes.fromhex(aop['acc'])
        ctx.op(aop)
        ctx.op(dop)
        ctx.fault('receiver-started-with-' + ''.join(dop['flags']).replace('-', ''))
        ctx.tag(wc, ' '.join(dop['flags']))
        texts = [self._want(wc, acc, o['variant']) for o in intact]
        for o in subs:
            t = self._want(wc, acc, o['variant'])
            texts.append(t[:o['pos']] + o['char'] + t[o['pos'] + 1:])
        res = self._child_parse(dop['flags'], texts)
        ctx.evaluated(len(texts))
        klass = 'interpreter' + ''.join(dop['flags'][:1])
        for o, r in zip(intact, res):
            if ops is not None:
                ctx.op(o)
            v = o['variant']
            good = r is not None and r[0] == wc and r[1] == acc.hex() and (v == 'raw' or (r[2], r[3]) == VARIANTS[v][:2])
            if not good:
                self._fail(ctx, [aop, dop, o], 'roundtrip', 'Address(str)', klass, 'in an interpreter started with %s the intact text of form %s parsed to %r' % (' '.join(dop['flags']), v, r))
                return
        for o, r in zip(subs, res[len(intact):]):
            ctx.fault('substitute')
            if ops is not None:
                ctx.op(o)
            if r is not None:
                where = 'tag' if o['pos'] < 2 else ('crc' if o['pos'] >= 45 else 'body')
                self._fail(ctx, [aop, dop, o], 'typo-accepted', 'Address(str)', where + '/' + klass,
                           'in an interpreter started with %s a friendly address with character %d replaced by %r was accepted (as wc=%r)' % (' '.join(dop['flags']), o['pos'], o['char'], r[0]))
                return

    IRREGULAR = ['0:' + 'ab' * 33, '-1:' + 'cd' * 40, '0:' + 'ef' * 31, '5:' + '0' * 63, '0:', '127:' + 'ff' * 64]

    def _irregular(self, ctx, op):
        """Earlier in the same process something irregular was handled: a raw text whose account part is not 32 bytes long (the raw
        parser does not insist), parsed and - if it was accepted - logged and rendered.  Whatever that does, it is over; the
        addresses that follow are ordinary ones."""
        ctx.op(op)
        ctx.fault('irregular-address-handled-earlier-in-process')
        for text in self.IRREGULAR[op['k'] % len(self.IRREGULAR):][:2]:
            ok, a = call(Address, text)
            if ok:
                call(repr, a)
                call(a.to_str)
                call(a.to_str, True, False, False, True)
                call(a.to_str, False)
                call(hash, a)

    def run(self, ctx):
        cfg = ctx.cfg
        self._pre = []
        if cfg.get('irregular'):
            pre = {'op': 'irregular', 'k': int(cfg['acc'][:2], 16)}
            self._irregular(ctx, pre)
            self._pre = [pre]
        if cfg['leg'] == 'crowd':
            return self.run_crowd(ctx)
        if cfg['leg'] == 'deployed':
            return self.run_deployed(ctx)
        if cfg['leg'] == 'checksum':
            v = cfg['variant']
            b, t, u = VARIANTS[v]
            acc = bytearray(bytes.fromhex(cfg['acc']))
            head = bytes([(0x11 if b else 0x51) | (0x80 if t else 0), cfg['wc'] & 0xFF]) + bytes(acc[:30])
            r = int.from_bytes(refboc.crc16_xmodem(head), 'big')
            x = r ^ _crc16_back16(cfg['target'])
            acc[30:32] = x.to_bytes(2, 'big')
            if int.from_bytes(refboc.crc16_xmodem(head + bytes(acc[30:32])), 'big') != cfg['target']:
                raise AssertionError('checksum solver is wrong')
            aop = {'op': 'address', 'wc': cfg['wc'], 'acc': bytes(acc).hex()}
            ctx.op(aop)
            ctx.tag(cfg['wc'], v, '%04x' % cfg['target'])
            ctx.probe('friendly-text-with-engineered-checksum/%s' % ('0000' if cfg['target'] == 0 else 'ffff' if cfg['target'] == 0xFFFF else 'zero-byte' if cfg['target'] & 0xFF == 0 or cfg['target'] >> 8 == 0 else 'other'))
            text = self._check(ctx, aop, {'op': 'render', 'variant': v})
            self._check(ctx, aop, {'op': 'render', 'variant': 'raw'})
            for v2 in (v ^ 1, v ^ 2, v ^ 4):
                self._relay(ctx, aop, {'op': 'relay', 'variant': v, 'to': v2, 'copy': bool(cfg['target'] & 1)})
            if text is not None:
                # typos in the checksum characters themselves and next to them
                alph = B64_URL if VARIANTS[v][2] else B64_STD
                rop = {'op': 'render', 'variant': v}
                for pos in (44, 45, 46, 47, 0, 1):
                    for ch in alph:
                        if ch != text[pos]:
                            self._subst(ctx, aop, rop, text, pos, ch, times=1)
            return
        aop = {'op': 'address', 'wc': cfg['wc'], 'acc': cfg['acc'], 'origin': cfg.get('origin', 'tuple')}
        ctx.op(aop)
        ctx.tag(cfg['wc'], cfg.get('variants'), cfg['acc'][:4], cfg.get('origin'))
        if cfg['leg'] == 'roundtrip':
            ctx.probe('workchain-%s' % ('negative' if cfg['wc'] < 0 else 'nonnegative'))
            self._check(ctx, aop, {'op': 'render', 'variant': 'raw'})
            for v in range(8):
                self._check(ctx, aop, {'op': 'render', 'variant': v})
            # a relay parses what it received and renders it again in another form (every ordered pair of forms)
            for v1 in ['raw'] + list(range(8)):
                for v2 in ['raw'] + list(range(8)):
                    self._relay(ctx, aop, {'op': 'relay', 'variant': v1, 'to': v2, 'copy': (cfg['wc'] + (v2 if v2 != 'raw' else 8)) % 3 == 0})
            return
        for v in cfg['variants']:
            rop = {'op': 'render', 'variant': v}
            text = self._check(ctx, aop, rop)
            if text is None:
                continue
            alph = B64_URL if VARIANTS[v][2] else B64_STD
            later = []
            for pos in range(len(text)):
                for ch in alph:
                    if ch != text[pos]:
                        # the channel may duplicate: the same damaged text arrives twice in a row ...
                        self._subst(ctx, aop, rop, text, pos, ch, times=2)
                        if ctx.rng.random() < 0.02:
                            later.append((pos, ch))
            # ... or again much later (a user retrying the same typo), and the intact text must still parse
            for pos, ch in later:
                self._subst(ctx, aop, rop, text, pos, ch, times=1, again=True)
            self._check(ctx, aop, rop)

    def replay(self, ctx, ops):
        self._pre = []
        for o in ops:
            if o['op'] == 'irregular':
                self._irregular(ctx, o)
                self._pre = [o]
        ops = [o for o in ops if o['op'] != 'irregular']
        if any(o['op'] == 'member' for o in ops):
            return self.run_crowd(ctx, ops)
        if any(o['op'] == 'deploy' for o in ops):
            return self.run_deployed(ctx, ops)
        a = next((o for o in ops if o['op'] == 'address'), None)
        if a is None:
            return
        ctx.op(a)
        text = None
        rop = None
        for o in ops:
            if o['op'] == 'render':
                rop = o
                ctx.op(o)
                text = self._check(ctx, a, o, record=False)
            elif o['op'] == 'relay':
                ctx.op(o)
                self._relay(ctx, a, o)
            elif o['op'] == 'substitute' and text is not None and o['pos'] < len(text):
                ctx.op(o)
                self._subst(ctx, a, rop, text, o['pos'], o['char'], record=False, times=o.get('times', 1))

    ORIGINS = ['tuple', 'raw', 'copy', 'cell', 'anycast-set', 'anycast-cell', 'tl-dict-edited', 'reassigned', 'subclass']

    def _mk(self, aop):
        """The address object under test, obtained by the route aop['origin'] names ('equal addresses hash equally' is
        about objects, however they came to exist).  A route the library refuses falls back to the tuple form."""
        wc, acc = aop['wc'], bytes.fromhex(aop['acc'])
        origin = aop.get('origin', 'tuple')
        if origin == 'tuple':
            return Address((wc, acc))

        def go():
            if origin == 'raw':
                return Address('%d:%s' % (wc, acc.hex()))
            if origin == 'copy':
                return Address(Address((wc, acc)))
            if origin == 'subclass':
                return _AppAddress((wc, acc))      # an application's own subclass (adds nothing): still that address
            if origin == 'tl-dict-edited':
                # the caller asked for the TL account-id dict and edited ITS dict (to build a request for another account)
                a = Address((wc, acc))
                a.to_str(False)
                d = a.to_tl_account_id()
                if isinstance(d, dict):
                    for key in list(d):
                        d[key] = -1 if isinstance(d[key], int) else 'ab' * 32
                    d['@type'] = 'liteServer.accountId'
                return a
            if origin == 'reassigned':
                # one address object used as a cursor: it held another address, was rendered in every form, then its (plain) fields
                # were assigned; what it renders to now is the address it holds now
                a = Address(((wc + 1) if wc < 127 else 0, bytes(b ^ 0x5a for b in acc)))
                a.to_str(False), a.to_str(True, True, True, False), a.to_str(True, False, False, True), a.to_tl_account_id(), hash(a)
                a.wc, a.hash_part = wc, acc
                return a
            a = Address((wc, acc))
            if origin.startswith('anycast'):
                depth = 1 + acc[0] % 30
                a.set_anycast(depth, int.from_bytes(acc[1:5], 'big') >> (32 - depth))
            if origin.endswith('cell'):
                from pytoniq_core.boc.builder import Builder
                a = Builder().store_address(a).end_cell().begin_parse().load_address()
            return a
        ok, a = call(go)
        if not ok or not isinstance(a, Address) or a.wc != wc or a.hash_part != acc:
            return Address((wc, acc))
        return a

    def _check(self, ctx, aop, rop, record=True):
        a = self._mk(aop)
        v = rop['variant']
        wc, acc = aop['wc'], bytes.fromhex(aop['acc'])
        ctx.evaluated(1)
        if v == 'raw':
            ok, text = call(a.to_str, False)
            want = '%d:%s' % (wc, acc.hex())
        else:
            ok, text = self._render(ctx, a, v)
            b, t, u = VARIANTS[v]
            tag = (0x11 if b else 0x51) | (0x80 if t else 0)
            raw = bytes([tag, wc & 0xFF]) + acc
            raw += refboc.crc16_xmodem(raw)
            want = (base64.urlsafe_b64encode(raw) if u else base64.b64encode(raw)).decode()
        klass = 'raw' if v == 'raw' else 'friendly-wc%s' % ('neg' if wc < 0 else 'pos')
        if not ok or text != want:
            self._fail(ctx, [aop, rop], 'render', 'to_str', klass, 'to_str(variant %s) of wc=%d gives %r, reference layout is %r' % (v, wc, text, want))
            return None
        ok, back = call(Address, text)
        if not ok:
            self._fail(ctx, [aop, rop], 'roundtrip', 'Address(str)', klass, 'Address(%r) raised %r' % (text, back))
            return None
        problems = []
        anycast = getattr(a, 'anycast', None) is not None
        if anycast:
            # the text forms cannot carry anycast info and the statement quantifies over (workchain, account id): whether such an
            # object equals its parsed text is the library's choice - but IF it says equal, the two must hash equally
            ctx.probe('address-object-carrying-anycast-info')
            oke, eq = call(lambda: back == a)
            if not oke or not eq:
                if back.wc != wc or back.hash_part != acc:
                    self._fail(ctx, [aop, rop], 'roundtrip', 'Address(str)', klass, 'parsed address differs (wc %r)' % (back.wc,))
                    return None
                return text
        if (not anycast and not (back == a)) or back.wc != wc or back.hash_part != acc:
            problems.append('parsed address differs (wc %r)' % (back.wc,))
        if v != 'raw':
            b, t, u = VARIANTS[v]
            if bool(back.is_bounceable) != b or bool(back.is_test_only) != t:
                problems.append('flags bounceable=%r test_only=%r, rendered with %r/%r' % (back.is_bounceable, back.is_test_only, b, t))
        okh, hh = call(lambda: hash(back) == hash(a) and len({back: 1, a: 2}) == 1)
        if not okh or not hh:
            problems.append('equal addresses hash differently')
        if problems:
            self._fail(ctx, [aop, rop], 'roundtrip', 'Address(str)', klass, '; '.join(problems))
            return None
        # the caller edits the object it received (fields are plain attributes); the same text parsed again still denotes the address
        try:
            back.wc, back.hash_part = (wc + 1 if wc < 127 else 0), bytes(32)
            back.is_bounceable, back.is_test_only = not back.is_bounceable, not back.is_test_only
        except Exception:
            return text
        ok, again = call(Address, text)
        ctx.evaluated(1)
        if not ok or again.wc != wc or again.hash_part != acc or (v != 'raw' and (bool(again.is_bounceable), bool(again.is_test_only)) != VARIANTS[v][:2]):
            self._fail(ctx, [aop, rop], 'roundtrip', 'Address(str)-again', klass, 'after the caller edited the address object it had parsed, the same text parsed to %r' % (again,))
            return None
        return text

    def _want(self, wc, acc, v):
        if v == 'raw':
            return '%d:%s' % (wc, acc.hex())
        b, t, u = VARIANTS[v]
        raw = bytes([(0x11 if b else 0x51) | (0x80 if t else 0), wc & 0xFF]) + acc
        raw += refboc.crc16_xmodem(raw)
        return (base64.urlsafe_b64encode(raw) if u else base64.b64encode(raw)).decode()

    def _relay(self, ctx, aop, rop):
        """text in form v1 -> Address -> (optionally Address(copy)) -> text in form v2 -> Address: the second text is the
        reference layout of form v2 and parses with v2's flags, whatever form the object was first read from."""
        wc, acc = aop['wc'], bytes.fromhex(aop['acc'])
        v1, v2 = rop['variant'], rop['to']
        ok, first = call(Address, self._want(wc, acc, v1))
        if not ok:
            return   # reported by the plain round trip
        ctx.fault('relay-re-renders-parsed-address')
        ctx.evaluated(2)
        obj = first
        if rop.get('copy'):
            ok, obj = call(Address, first)
            if not ok:
                self._fail(ctx, [aop, rop], 'roundtrip', 'Address(Address)', 'copy', 'Address(address) raised %r' % (obj,))
                return
        if v2 == 'raw':
            ok, text = call(obj.to_str, False)
        else:
            b, t, u = VARIANTS[v2]
            ok, text = call(obj.to_str, True, u, b, t)
        want = self._want(wc, acc, v2)
        klass = 'parsed-from-%s' % ('raw' if v1 == 'raw' else 'friendly')
        if not ok or text != want:
            self._fail(ctx, [aop, rop], 'render', 'to_str-of-parsed', klass, 'an address parsed from form %s and rendered in form %s gives %r, reference layout is %r' % (v1, v2, text, want))
            return
        ok, back = call(Address, text)
        if not ok or not (back == first) or back.wc != wc or back.hash_part != acc:
            self._fail(ctx, [aop, rop], 'roundtrip', 'Address(str)-of-re-rendered', klass, 'form %s -> form %s does not parse back to the same address: %r' % (v1, v2, back))
            return
        if v2 != 'raw':
            b, t, u = VARIANTS[v2]
            if bool(back.is_bounceable) != b or bool(back.is_test_only) != t:
                self._fail(ctx, [aop, rop], 'roundtrip', 'Address(str)-of-re-rendered', klass + '-flags',
                           'parsed from form %s, rendered with bounceable=%r test_only=%r, parsed back with %r/%r' % (v1, b, t, back.is_bounceable, back.is_test_only))

    def _subst(self, ctx, aop, rop, text, pos, ch, record=True, times=1, again=False):
        damaged = text[:pos] + ch + text[pos + 1:]
        ctx.fault('substitute')
        if again:
            ctx.fault('redelivered-later')
        for attempt in range(times):
            if attempt:
                ctx.fault('duplicate')
            ctx.evaluated(1)
            ok, res = call(Address, damaged)
            if ok:
                where = 'tag' if pos < 2 else ('crc' if pos >= 45 else 'body')
                ops = [aop, rop] + [{'op': 'substitute', 'pos': pos, 'char': ch, 'times': attempt + 1}] * (2 if again else 1)
                self._fail(ctx, ops, 'typo-accepted', 'Address(str)', where + ('' if attempt == 0 and not again else '-on-redelivery'),
                           'friendly address with character %d replaced by %r was accepted (as wc=%r) on delivery #%d' % (pos, ch, getattr(res, 'wc', None), attempt + 1 + again))
                return

    def _fail(self, ctx, ops, invariant, opkind, klass, msg):
        if getattr(ctx, 'keep_history', False):
            return self.V(ctx, invariant, opkind, klass + '/after-related-addresses', msg)
        keep = list(ctx.ops)
        ctx.ops = list(getattr(self, '_pre', [])) + list(ops)
        self.V(ctx, invariant, opkind, klass, msg)
        ctx.ops = keep
