"""VM world (C17): repeated serialize/deserialize histories on caller-held TVM stack values."""
import random
from detsim.core import HistoryWorld, Violation
from refmodel import vm as refvm
from refmodel.rcell import RCell
from .common import call, call_shallow, to01, tvm_bits, lib_cell_from_rcell, rcell_from_lib, struct_diff, Cell, Builder, Slice
from .build import _rbits

from pytoniq_core.tlb.vm_stack import VmStack, VmTuple, VmCont, VmControlData, VmStackValue
from pytoniq_core.boc.hashmap import HashMap

INTS = [0, 1, -1, 2 ** 62, 2 ** 63 - 1, 2 ** 63, 2 ** 63 + 1, -2 ** 63 + 1, -2 ** 63 - 1, 2 ** 64, 2 ** 255, 2 ** 256 - 1, -2 ** 256, 2 ** 256 - 12345, -2 ** 255]


def gen_item(rng, depth):
    r = rng.random()
    if r < 0.12:
        return ['null']
    if r < 0.40:
        return ['int', rng.choice(INTS + [rng.getrandbits(rng.choice([8, 62, 63, 64, 65, 200, 256])) * rng.choice([1, -1])])]
    if r < 0.42:
        return ['int', rng.choice([2 ** 256, -2 ** 256 - 1, 2 ** 300])]   # outside the 257-bit range: serialising must fail cleanly
    if r < 0.52:
        return ['cell', _rbits(rng, rng.choice([0, 8, 33, 1023])), rng.choice([0, 0, 1, 2])]
    if r < 0.64:
        nb = rng.choice([0, 1, 8, 33, 500, 1022, 1023])
        return ['slice', _rbits(rng, nb), rng.choice([0, 1, 2, 4]), rng.choice([0, 0, rng.randint(0, nb)]), rng.choice([0, 0, 1])]
    if r < 0.70:
        return ['builder', _rbits(rng, rng.choice([0, 5, 64])), rng.choice([0, 1])]
    if r < 0.80:
        return ['cont', gen_cont(rng, 2)]
    if depth > 0:
        n = rng.choice([0, 1, 2, 3, 3, 4, 7] + ([60, 255] if depth == 3 and rng.random() < 0.05 else []))
        return ['tuple', [gen_item(rng, depth - 1) for _ in range(n)]]
    return ['int', rng.choice(INTS)]


def gen_cont(rng, depth):
    kinds = ['quit', 'quit_exc']
    if depth > 0:
        kinds += ['repeat', 'until', 'again', 'while_cond', 'while_body', 'pushint', 'std', 'envelope']
    t = rng.choice(kinds)
    sub = lambda: gen_cont(rng, depth - 1)
    if t == 'quit':
        return {'t': t, 'exit_code': rng.choice([0, 1, -1, 2 ** 31 - 1, -2 ** 31, rng.randint(-1000, 1000)])}
    if t == 'quit_exc':
        return {'t': t}
    if t == 'repeat':
        return {'t': t, 'count': rng.choice([0, 1, 2 ** 63 - 1, rng.getrandbits(40)]), 'body': sub(), 'after': sub()}
    if t == 'until':
        return {'t': t, 'body': sub(), 'after': sub()}
    if t == 'again':
        return {'t': t, 'body': sub()}
    if t in ('while_cond', 'while_body'):
        return {'t': t, 'cond': sub(), 'body': sub(), 'after': sub()}
    if t == 'pushint':
        return {'t': t, 'value': rng.choice([0, -1, 2 ** 31 - 1, -2 ** 31, 77]), 'next': sub()}
    cd = {'nargs': rng.choice([None, None, 0, 1, 5, 8191]), 'cp': rng.choice([None, None, 0, -1, 1, 32767, -32768]), 'stack': None, 'save': None}
    if rng.random() < 0.35:
        # saved stack (Maybe VmStack, inline) and save list (HashmapE 4 VmStackValue) of the control data; small values so that
        # the continuation still fits one cell (4 references in all)
        def small():
            # (a continuation that carries a reference of its own - again, pushint, repeat - followed by whatever the enclosing
            # control data stores after it: the place where reading one reference too few or too many shows)
            return rng.choice([['null'], ['int', rng.choice([0, 1, -1, 2 ** 63, -2 ** 255, rng.getrandbits(30)])], ['int', 7], ['tuple', []]])

        def refful():
            return rng.choice([['cont', {'t': 'again', 'body': {'t': 'quit', 'exit_code': rng.choice([0, 1, 9])}}],
                               ['cont', {'t': 'pushint', 'value': rng.choice([0, -1, 77]), 'next': {'t': 'quit_exc'}}],
                               ['cont', {'t': 'quit', 'exit_code': 3}]])
        if rng.random() < 0.7:
            cd['stack'] = [small() for _ in range(rng.choice([0, 1, 1, 2, 3]))]
            cd['stack_form'] = rng.choice(['list', 'list', 'cell'])
            if rng.random() < 0.4:
                cd['stack'].append(refful())     # on top of the saved stack, i.e. inline in the control data's own cell
                cd['top_has_ref'] = True
        if rng.random() < 0.5 and not cd.get('top_has_ref'):
            cd['save'] = {str(k): small() for k in rng.sample(range(16), rng.choice([1, 1, 2, 4]))}
            cd['save_form'] = rng.choice(['dict', 'hashmap', 'hashmap-cells', 'cell'])
    if t == 'std':
        return {'t': t, 'cdata': cd, 'code': [_rbits(rng, rng.choice([0, 8, 40])), rng.choice([0, 1])]}
    return {'t': t, 'cdata': cd, 'next': sub()}


def _aux(i):
    return RCell(bin(i + 2)[2:].zfill(12))


def build(item):
    """JSON item -> (library value, model value)."""
    k = item[0]
    if k == 'null':
        return None, None
    if k == 'int':
        return item[1], item[1]
    if k == 'cell':
        rc = RCell(item[1], [_aux(i) for i in range(item[2])])
        return lib_cell_from_rcell(rc), ('cell', rc)
    if k == 'builder':
        rc = RCell(item[1], [_aux(i) for i in range(item[2])])
        b = Builder().store_bits(item[1])
        for r in rc.refs:
            b.store_ref(lib_cell_from_rcell(r))
        return b, ('builder', rc)
    if k == 'slice':
        bits, nrefs, skip, skipr = item[1], item[2], item[3], min(item[4], item[2])
        rc = RCell(bits, [_aux(i) for i in range(nrefs)])
        s = lib_cell_from_rcell(rc).begin_parse()
        if skip:
            s.skip_bits(skip)
        for _ in range(skipr):
            s.load_ref()
        return s, ('slice', RCell(bits[skip:], rc.refs[skipr:]))
    if k == 'tuple':
        pairs = [build(x) for x in item[1]]
        return VmTuple([p[0] for p in pairs]), ('tuple', [p[1] for p in pairs])
    if k == 'cont':
        return build_cont(item[1])
    raise AssertionError(k)


def _vm_value_serializer(src, dest):
    return dest.store_cell(VmStackValue.serialize(src))


def build_cdata(v):
    """JSON control data -> (library VmControlData, model dict).  The saved stack is given as the list of values the parser
    returns (or pre-serialised as a cell), the save list as {register: value} (or as a HashMap over VmStackValue)."""
    m = {'nargs': v['nargs'], 'cp': v['cp'], 'stack': None, 'save': None}
    lstack = lsave = None
    if v.get('stack') is not None:
        pairs = [build(x) for x in v['stack']]
        m['stack'] = [p[1] for p in pairs]
        lstack = [p[0] for p in pairs]
        if v.get('stack_form') == 'cell':
            ok, pre = call(VmStack.serialize, list(lstack))
            if ok:
                lstack = pre      # (a refusal here shows up when the same values are serialised as part of the stack)
    if v.get('save'):
        pairs = {int(k): build(x) for k, x in v['save'].items()}
        m['save'] = {k: p[1] for k, p in pairs.items()}
        lsave = {k: p[0] for k, p in pairs.items()}
        if v.get('save_form') == 'hashmap':
            hm = HashMap(4, value_serializer=_vm_value_serializer)
            for k, x in lsave.items():
                hm.set_int_key(k, x)
            lsave = hm
        elif v.get('save_form') in ('hashmap-cells', 'cell'):
            # the other public forms: a HashMap(4) WITHOUT a value serialiser whose values are already-encoded VmStackValue cells
            # (HashMap stores such cells inline), or the finished dictionary cell itself
            def pre():
                hm = HashMap(4)
                for k, x in lsave.items():
                    hm.set_int_key(k, VmStackValue.serialize(x))
                return hm if v['save_form'] == 'hashmap-cells' else hm.serialize()
            ok, res = call(pre)
            if ok:
                lsave = res
    return VmControlData('vm_ctl_data', nargs=v['nargs'], stack=lstack, save=lsave, cp=v['cp']), m


def cdata_from_model(m):
    lstack = [build_from_model(x) for x in m['stack']] if m.get('stack') is not None else None
    lsave = {k: build_from_model(x) for k, x in m['save'].items()} if m.get('save') else None
    return VmControlData('vm_ctl_data', nargs=m['nargs'], stack=lstack, save=lsave, cp=m['cp'])


def lib_norm_cdata(v, _seen=()):
    st = getattr(v, 'stack', None)
    if isinstance(st, Cell):
        try:
            st = VmStack.deserialize(st.begin_parse())
        except Exception as e:
            st = [('?', repr(e))]
    sv = getattr(v, 'save', None)
    if isinstance(sv, HashMap):
        sv = dict(sv.map)
    if sv is not None and not isinstance(sv, dict):
        sv = {0: ('?', repr(sv))}
    return (('cp', getattr(v, 'cp', None)), ('nargs', getattr(v, 'nargs', None)),
            ('save', tuple(sorted((int(k), lib_norm(x, _seen)) for k, x in sv.items())) if sv else None),
            ('stack', tuple(lib_norm(x, _seen) for x in st) if st is not None else None))


def build_cont(c):
    t = c['t']
    lk, mk = {}, {'t': t}
    for key, v in c.items():
        if key == 't':
            continue
        if isinstance(v, dict) and 't' in v:
            l, m = build_cont(v)
            lk[key], mk[key] = l, m[1]
        elif key == 'cdata':
            lk[key], mk[key] = build_cdata(v)
        elif key == 'code':
            rc = RCell(v[0], [_aux(i) for i in range(v[1])])
            lk[key] = lib_cell_from_rcell(rc).begin_parse()
            mk[key] = rc
        else:
            lk[key], mk[key] = v, v
    return VmCont('vmc_' + t, **lk), ('cont', mk)


def lib_norm(v, _seen=()):
    """Comparable form of a library value (mirrors refvm.norm).  A tuple that contains itself (possible only through
    aliasing inside the library) is reported as such instead of being followed."""
    if v is None or (isinstance(v, int) and not isinstance(v, bool)):
        return v
    if isinstance(v, VmTuple):
        if id(v) in _seen or len(_seen) > 64:
            return ('tuple-containing-itself',)
        return ('tuple', tuple(lib_norm(x, _seen + (id(v),)) for x in v.list))
    if isinstance(v, Cell):
        return ('cell', v.hash.hex())
    if isinstance(v, Builder):
        return ('builder', rcell_from_lib(v.end_cell()).hash.hex())
    if isinstance(v, Slice):
        return ('slice', to01(v.bits), tuple(r.hash.hex() for r in v.refs[v.ref_offset:]))
    if isinstance(v, VmTuple):
        return ('tuple', tuple(lib_norm(x) for x in v.list))
    if isinstance(v, VmCont):
        if len(_seen) > 64:
            return ('nesting-too-deep',)
        return ('cont', lib_norm_cont(v, _seen + (id(v),)))
    return ('?', repr(v))


def lib_norm_cont(c, _seen=()):
    if len(_seen) > 64:
        return ('nesting-too-deep',)
    out = {'t': c.type_[4:] if c.type_.startswith('vmc_') else c.type_}
    for k, v in vars(c).items():
        if k == 'type_':
            continue
        if isinstance(v, VmCont):
            out[k] = lib_norm_cont(v, _seen + (id(c),))
        elif isinstance(v, VmControlData):
            out[k] = lib_norm_cdata(v, _seen + (id(c),))
        elif isinstance(v, Slice):
            out[k] = ('slice', to01(v.bits), tuple(r.hash.hex() for r in v.refs[v.ref_offset:]))
        else:
            out[k] = v
    return tuple(sorted(out.items(), key=lambda x: x[0]))


def deep_snapshot(vals, _depth=0):
    """Everything observable about caller-held values (identity-free)."""
    out = []
    for v in vals:
        if isinstance(v, VmTuple):
            out.append(('tuple', len(v.list), deep_snapshot(v.list, _depth + 1) if _depth < 64 else 'too-deep'))
        elif isinstance(v, Builder):
            out.append(('builder', to01(v.bits), tuple(r.hash for r in v.refs)))
        elif isinstance(v, VmCont):
            out.append(('cont', lib_norm_cont(v)))
        else:
            out.append(lib_norm(v))
    return out


def is_bad(v):
    return isinstance(v, int) and not isinstance(v, bool) and not -(1 << 256) <= v < (1 << 256)


def has_bad(model_vals):
    for v in model_vals:
        if is_bad(v):
            return True
        if isinstance(v, tuple) and v[0] == 'tuple' and has_bad(v[1]):
            return True
    return False


def strip_bad(lib_vals, model_vals):
    """The caller removes the unsupported values from its own containers (in place)."""
    i = 0
    while i < len(model_vals):
        m = model_vals[i]
        if is_bad(m):
            del model_vals[i]
            del lib_vals[i]
            continue
        if isinstance(m, tuple) and m[0] == 'tuple':
            strip_bad(lib_vals[i].list, m[1])
        i += 1


def has_kind(model_vals, kinds):
    for v in model_vals:
        if isinstance(v, tuple):
            if v[0] in kinds:
                return True
            if v[0] == 'tuple' and has_kind(v[1], kinds):
                return True
    return False


class St:
    pass


class VmWorld(HistoryWorld):
    run_timeout = 20   # slowest legitimate run is well under 0.2 s
    name = 'VM'
    chunk = 50
    legs = {'quick': [('main', 30000), ('deep', 32)], 'thorough': [('main', 1000000), ('deep', 400)]}
    DEPTHS = [256, 400, 499, 500, 501, 502, 512, 600, 700, 900, 990, 1000, 1001, 1020, 1022, 1023]
    budget = {'quick': 100, 'thorough': 1500}
    real_code = ['pytoniq_core.tlb.vm_stack (VmStack, VmStackList, VmStackValue, VmTuple, VmTupleRef, VmCellSlice, VmCont, VmControlData)']
    stubs = ['reference VmStack encoder and slice-tolerant decoder (refmodel/vm.py)', 'deep snapshots of the caller-held values']

    def rule(self):
        return ('Each run = a history on one caller-held stack: push (null, integers around +-2^63 and +-2^256, cells, partly consumed slices, builders, tuples of length 0,1,2,3+ '
                'nested to depth 3, continuations of every kind, their control data with and without nargs, cp, a saved stack and a save list) interleaved with serialize, serialize-again and deserialize. Oracle per call: deep snapshot of the caller\'s values '
                'unchanged; two serialisations give the same cell; the cell decodes under the reference VmStack schema to the pushed values (and equals the reference encoding bit for bit '
                'when the stack has no slice, whose window encoding is not unique); deserialize returns equal values in order, and serialising the returned values gives the same cell again; after a serialisation the caller goes on using its builders, slices and tuples and the earlier cell must still parse to the old values. '
                'Non-trivial = stack with a tuple of length >= 2, a 64/257-bit boundary integer or a continuation; distinct = distinct (op sequence, probe set).')

    def assumptions(self):
        return ['(M) fault-free repeated-call histories', 'refmodel/vm.py written from block.tlb is the trusted base', 'carve-outs: -2^63 may use either integer form; NaN']

    def make_config(self, rng, leg, run_index):
        if leg == 'deep':
            # the statement quantifies over stacks of every depth: as deep as a chain of cells can be (1023 list cells)
            d = self.DEPTHS[run_index % len(self.DEPTHS)]
            return {'steps': 4, 'depth': d if run_index < len(self.DEPTHS) else rng.randint(257, 1023), 'fill_seed': rng.getrandbits(32)}
        return {'steps': rng.choice([4, 8, 16, 30])}

    def new_state(self, ctx):
        st = St()
        st.lib = []
        st.model = []
        st.last = None
        return st

    def gen_op(self, st, ctx):
        rng = ctx.rng
        if ctx.cfg.get('depth'):
            k = len(ctx.ops)
            if k == 0:
                return {'op': 'push_many', 'n': ctx.cfg['depth'], 'seed': ctx.cfg['fill_seed']}
            return [{'op': 'serialize'}, {'op': 'deserialize'}, {'op': 'serialize'}][(k - 1) % 3]
        r = rng.random()
        if st.lib and has_bad(st.model) and r < 0.5:
            return {'op': 'repair'}
        if not st.lib or r < 0.45:
            if len(st.lib) >= 8:
                return {'op': 'pop'}
            return {'op': 'push', 'item': gen_item(rng, 3)}
        if r < 0.72:
            return {'op': 'serialize'}
        if r < 0.88:
            return {'op': 'deserialize'}
        if r < 0.92:
            return {'op': 'caller_moves_on', 'seed': rng.getrandbits(16)}
        if r < 0.97:
            return {'op': 'caller_edits_in_place'}
        return {'op': 'pop'}

    def V(self, ctx, invariant, opkind, klass, msg):
        return ctx.violation(Violation(self.prop, invariant, opkind, klass, msg))

    def apply(self, st, op, ctx):
        getattr(self, 'op_' + op['op'])(st, op, ctx)

    def op_push(self, st, op, ctx):
        l, m = build(op['item'])
        st.lib.append(l)
        st.model.append(m)
        k = op['item'][0]
        if k == 'tuple':
            ctx.probe('tuple-len-%s' % ('3+' if len(op['item'][1]) >= 3 else len(op['item'][1])))
        if k == 'int' and abs(abs(op['item'][1]) - 2 ** 63) <= 1:
            ctx.probe('int-at-64-bit-boundary')
        if k == 'cont':
            ctx.probe('continuation')

    def op_push_many(self, st, op, ctx):
        """A deep stack of small values: integers (tiny and 257-bit form), nulls, now and then a short tuple."""
        r = random.Random(op['seed'])
        for i in range(op['n']):
            x = r.random()
            if x < 0.80:
                item = ['int', r.choice([i, -i, r.getrandbits(20), 2 ** 63 + i, -2 ** 200 - i])]
            elif x < 0.92:
                item = ['null']
            else:
                item = ['tuple', [['int', i], ['int', 7]]]
            l, m = build(item)
            st.lib.append(l)
            st.model.append(m)
        st.last = None
        d = op['n']
        ctx.probe('deep-stack/%s' % ('<=500' if d <= 500 else '501..999' if d < 1000 else '1000..1023'))

    def op_pop(self, st, op, ctx):
        if st.lib:
            st.lib.pop()
            st.model.pop()
        st.last = None

    def op_caller_moves_on(self, st, op, ctx):
        """After a serialisation the caller goes on using ITS objects (writes to its builders, reads from its slices, extends its
        tuples) and then drops them: the cell produced earlier must still parse to the values it was made from."""
        if st.last is None:
            return
        r = random.Random(op['seed'])
        touched = [0]

        def use(v, depth=0):
            if isinstance(v, Builder):
                if len(v.refs) < 4 and r.random() < 0.7:
                    call(v.store_ref, Builder().store_uint(r.getrandbits(8), 8).end_cell())
                    touched[0] += 1
                if v.available_bits >= 3:
                    call(v.store_uint, 5, 3)
                    touched[0] += 1
            elif isinstance(v, Slice):
                if v.remaining_bits:
                    call(v.load_bit)
                    touched[0] += 1
                if v.remaining_refs:
                    call(v.load_ref)
                    touched[0] += 1
            elif isinstance(v, VmTuple) and depth < 6:
                for x in list(v.list):
                    use(x, depth + 1)
                v.list.append(r.getrandbits(8))
                touched[0] += 1
        for v in st.lib:
            use(v)
        if touched[0]:
            ctx.fault('caller-reuses-serialised-values')
        # the caller's objects are dropped; fresh equal ones take their place so that model and library side stay in step
        st.lib = [build_from_model(m) for m in st.model]
        self.op_deserialize(st, op, ctx)

    def op_caller_edits_in_place(self, st, op, ctx):
        """The caller keeps ITS stack and edits the values in it between two serialisations (appends to its tuples at every depth,
        changes the integer fields of continuations wherever they are nested - a loop's body, a pushint's next ...): the next
        serialisation must encode the values as they are NOW."""
        import copy
        if not st.lib or has_bad(st.model):
            return
        st.model = copy.deepcopy(st.model)
        edits = [0]

        def cont(c, obj, depth=0):
            if obj is None or depth > 8:
                return
            for key in sorted(c):
                v = c[key]
                if isinstance(v, dict) and 't' in v:
                    cont(v, getattr(obj, key, None), depth + 1)
                elif key in ('exit_code', 'value', 'count') and isinstance(v, int) and not isinstance(v, bool) and hasattr(obj, key):
                    nv = 6 if v != 6 else 9
                    c[key] = nv
                    setattr(obj, key, nv)
                    edits[0] += 1

        def walk(m, v, depth=0):
            if not isinstance(m, tuple) or depth > 6:
                return
            if m[0] == 'tuple' and isinstance(v, VmTuple) and len(m[1]) < 200:
                for mm, vv in zip(m[1], v.list):
                    walk(mm, vv, depth + 1)
                m[1].append(11)
                v.list.append(11)
                edits[0] += 1
            elif m[0] == 'cont':
                cont(m[1], v)
        for m, v in zip(st.model, st.lib):
            walk(m, v)
        if not edits[0]:
            return
        ctx.fault('caller-edits-its-values-between-serialisations')
        st.last = None
        self.op_serialize(st, op, ctx)

    def op_repair(self, st, op, ctx):
        strip_bad(st.lib, st.model)
        st.last = None
        ctx.probe('retry-after-failed-serialisation')

    def _klass(self, st):
        for kinds, name in ((('tuple',), 'tuple'), (('cont',), 'cont'), (('slice',), 'slice'), (('builder',), 'builder'), (('cell',), 'cell')):
            if has_kind(st.model, kinds):
                return name
        return 'scalars'

    def op_serialize(self, st, op, ctx):
        before = deep_snapshot(st.lib)
        nbefore = len(st.lib)
        docall = call_shallow if ctx.cfg.get('depth') else call     # deep stacks: from the bottom of an empty stack (see call_shallow)
        ok, c1 = docall(VmStack.serialize, st.lib)
        after = deep_snapshot(st.lib)
        klass = self._klass(st)
        if after != before or len(st.lib) != nbefore:
            self.V(ctx, 'caller-values-modified', 'serialize', klass + ('' if ok else '/call-raised'), 'VmStack.serialize changed the caller\'s values: %s -> %s' % (str(before)[:160], str(after)[:160]))
            # re-synchronise the library-side values from the model
            st.lib = [build_from_model(m) for m in st.model]
        if has_bad(st.model):
            # an out-of-range integer somewhere inside: whatever happens, the caller's values stay as they were (checked above)
            ctx.probe('serialise-with-unsupported-value' + ('-raised' if not ok else ''))
            st.last = None
            return
        if not ok:
            self.V(ctx, 'serialise-fails', 'serialize', klass, 'VmStack.serialize of a supported stack raised %r' % (c1,))
            return
        ctx.evaluated(1)
        ok2, c2 = docall(VmStack.serialize, st.lib)
        if not ok2 or c2.hash != c1.hash:
            self.V(ctx, 'second-serialisation-differs', 'serialize', klass, 'serialising the same stack twice gave different cells')
        # schema conformance
        got = rcell_from_lib(c1)
        want_norm = [refvm.norm(m) for m in st.model]
        try:
            dec = [refvm.norm(x) for x in refvm.dec_stack(got)]
        except (refvm.VmModelError, ValueError, IndexError) as e:
            self.V(ctx, 'not-vmstack-schema', 'serialize', klass, 'the serialised cell does not decode under the VmStack schema: %r' % (e,))
            return
        if _int_form_neutral(dec) != _int_form_neutral(want_norm):
            self.V(ctx, 'encodes-other-values', 'serialize', klass, 'the serialised cell decodes to %s, the stack holds %s' % (str(dec)[:200], str(want_norm)[:200]))
            return
        if not has_kind(st.model, ('slice',)) and not _has_min64(st.model):
            ref = refvm.enc_stack(st.model)
            if ref.hash != got.hash:
                self.V(ctx, 'bits-differ-from-schema', 'serialize', klass, 'the cell differs from the reference VmStack encoding (integer form / tuple chaining)')
                return
        st.last = (c1, [refvm.norm(m) for m in st.model], klass)

    def op_deserialize(self, st, op, ctx):
        if st.last is None:
            return
        cell, want, klass = st.last
        docall = call_shallow if ctx.cfg.get('depth') else call
        ok, vals = docall(lambda: VmStack.deserialize(cell.begin_parse()))
        if not ok:
            self.V(ctx, 'deserialise-fails', 'deserialize', klass, 'VmStack.deserialize of the library\'s own cell raised %r' % (vals,))
            return
        ctx.evaluated(1)
        got = [lib_norm(v) for v in vals]
        if got != want:
            i = next((i for i, (a, b) in enumerate(zip(got, want)) if a != b), min(len(got), len(want)))
            kk = want[i][0] if i < len(want) and isinstance(want[i], tuple) else 'scalar'
            self.V(ctx, 'roundtrip', 'deserialize', kk, 'value #%d came back as %s, pushed %s' % (i, str(got[i] if i < len(got) else None)[:200], str(want[i] if i < len(want) else None)[:200]))
            return
        # equal values serialise equally: what the parser returned must be accepted by the serialiser and give the same cell
        ok, c2 = docall(VmStack.serialize, vals)
        ctx.evaluated(1)
        if not ok:
            self.V(ctx, 'parsed-values-not-serialisable', 'serialize-of-parsed', klass, 'the values returned by VmStack.deserialize cannot be serialised again: %r' % (c2,))
        elif c2.hash != cell.hash:
            self.V(ctx, 'parsed-values-serialise-differently', 'serialize-of-parsed', klass, 'serialising the parsed values gives another cell than the one they were parsed from')
        # the receiver reads from the slices and writes to the builders it was handed (they are its values now); the cell it parsed
        # them from is still the same value: parsing it again returns the same stack
        used = [0]

        def use(v, depth=0):
            if isinstance(v, Slice):
                if v.remaining_bits:
                    call(v.load_bits, min(v.remaining_bits, 9))
                    used[0] += 1
                if v.remaining_refs:
                    call(v.load_ref)
                    used[0] += 1
            elif isinstance(v, Builder):
                if v.available_bits:
                    call(v.store_bit, 1)
                    used[0] += 1
            elif isinstance(v, VmTuple) and depth < 6:
                for x in list(v.list):
                    use(x, depth + 1)
        for v in vals:
            use(v)
        if used[0]:
            ctx.probe('receiver-consumes-parsed-values-then-parses-again')
            ok, vals2 = call(lambda: VmStack.deserialize(cell.begin_parse()))
            ctx.evaluated(1)
            if not ok or [lib_norm(v) for v in vals2] != want:
                self.V(ctx, 'second-parse-differs', 'deserialize', klass, 'after the receiver read from the values of the first parse, parsing the same cell again gave %s' % (str(vals2)[:160],))

    def shrink_op(self, op):
        if op['op'] == 'push':
            it = op['item']
            if it[0] == 'tuple':
                for i in range(len(it[1])):
                    yield {'op': 'push', 'item': ['tuple', it[1][:i] + it[1][i + 1:]]}
                for x in it[1]:
                    yield {'op': 'push', 'item': x}
            if it[0] == 'int' and abs(it[1]) > 1:
                yield {'op': 'push', 'item': ['int', 1 if it[1] > 0 else -1]}


def build_from_model(m):
    if m is None or isinstance(m, int):
        return m
    k = m[0]
    if k == 'cell':
        return lib_cell_from_rcell(m[1])
    if k == 'slice':
        return lib_cell_from_rcell(m[1]).begin_parse()
    if k == 'builder':
        b = Builder().store_bits(m[1].bits)
        for r in m[1].refs:
            b.store_ref(lib_cell_from_rcell(r))
        return b
    if k == 'tuple':
        return VmTuple([build_from_model(x) for x in m[1]])
    if k == 'cont':
        return _cont_from_model(m[1])


def _cont_from_model(c):
    kw = {}
    for key, v in c.items():
        if key == 't':
            continue
        if isinstance(v, dict) and 't' in v:
            kw[key] = _cont_from_model(v)
        elif key == 'cdata':
            kw[key] = cdata_from_model(v)
        elif isinstance(v, RCell):
            kw[key] = lib_cell_from_rcell(v).begin_parse()
        else:
            kw[key] = v
    return VmCont('vmc_' + c['t'], **kw)


def _has_min64(vals):
    for v in vals:
        if v == -(1 << 63):
            return True
        if isinstance(v, tuple) and v[0] == 'tuple' and _has_min64(v[1]):
            return True
    return False


def _int_form_neutral(x):
    return x
