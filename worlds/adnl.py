"""ADNL world (C20): real peers (library code on both ends) over a faulty datagram net; entropy seam.

legs
  channel   2..3 peers, every ordered pair has a channel; packets cross a net that drops, duplicates,
            delays/reorders, flips bits and mis-routes; after healing every lost message is resent.
  sign      the three signing helpers vs verify_sign under matching / other key, altered message,
            every single flipped signature bit.
  mnemonic  mnemonic_new under ordinary and biased entropy streams, validity, repeated and interleaved
            key derivation, reference derivation, (thorough) derivation in a fresh interpreter.
"""
import inspect
import hashlib
import hmac
import os
import random
import subprocess
import sys
import types

import nacl.signing
import nacl.bindings

from detsim import lib
from detsim.core import HistoryWorld, Violation
from detsim.sim import Sim, Net
from .common import call
from refmodel import mnemonic as refmn

from pytoniq_core.crypto import ciphers as lc
from pytoniq_core.crypto import keys as lk
from pytoniq_core.crypto.signature import verify_sign, sign_message

ED25519_L = 2 ** 252 + 27742317777372353535851937790883648493

ID_MAGIC = b'\xc6\xb4\x13\x48'


class EntropySeam:
    """Deterministic byte stream standing in for the OS / library RNG.  Modes model weak generators."""

    def __init__(self, seed, mode):
        self.r = random.Random(seed)
        self.mode = mode
        self.calls = 0
        self.bytes = 0
        self.fixed = None

    def __call__(self, n=32):
        self.calls += 1
        self.bytes += n
        m = self.mode
        if m == 'uniform':
            return bytes(self.r.getrandbits(8) for _ in range(n))
        if m == 'zeros':
            return bytes(n)
        if m == 'ones':
            return b'\xff' * n
        if m == 'low':
            return bytes(self.r.getrandbits(2) for _ in range(n))
        if m == 'high':
            return bytes(0xfc | self.r.getrandbits(2) for _ in range(n))
        if m == 'same':
            if self.fixed is None or len(self.fixed) != n:
                self.fixed = bytes(self.r.getrandbits(8) for _ in range(n))
            return self.fixed
        if m == 'sparse':
            return bytes(self.r.choice([0, 0, 0, 0, 1, 0x80, 0xff]) for _ in range(n))
        raise AssertionError(m)


class entropy_everywhere:
    """The entropy seam as seen from crypto/ciphers.py, whichever source the key generator happens to draw from: PyNaCl's
    random(), Cryptodome's get_random_bytes as imported there, or os.urandom.  Only library calls run inside the block."""
    def __init__(self, seam):
        self.seam = seam
        self.saved = []

    def __enter__(self):
        import os as _os
        for obj, name in ((nacl.signing, 'random'), (lc, 'get_random_bytes'), (_os, 'urandom')):
            if hasattr(obj, name):
                self.saved.append((obj, name, getattr(obj, name)))
                setattr(obj, name, self.seam)
        return self

    def __exit__(self, *a):
        for obj, name, old in reversed(self.saved):
            setattr(obj, name, old)
        return False


class patched:
    def __init__(self, obj, name, value):
        self.obj, self.name, self.value = obj, name, value

    def __enter__(self):
        self.old = getattr(self.obj, self.name)
        setattr(self.obj, self.name, self.value)

    def __exit__(self, *a):
        setattr(self.obj, self.name, self.old)


# ---- reference derivations (hashlib / PyNaCl bindings only) ----

def ref_entropy(words):
    return hmac.new(' '.join(words).encode(), b'', hashlib.sha512).digest()


def ref_is_basic_seed(ent):
    return hashlib.pbkdf2_hmac('sha512', ent, b'TON seed version', 390)[0] == 0


def ref_wallet_key(words):
    seed = hashlib.pbkdf2_hmac('sha512', ref_entropy(words), b'TON default seed', 100000)
    return nacl.bindings.crypto_sign_seed_keypair(seed[:32])


_CORPUS = None
_WORDSET = frozenset(refmn.WORDS)


def _corpus():
    global _CORPUS
    if _CORPUS is None:
        _CORPUS = refmn.corpus()
    return _CORPUS


class St:
    pass


class AdnlWorld(HistoryWorld):
    name = 'ADNL'
    chunk = 10
    legs = {'quick': [('channel', 6000), ('sign', 1000), ('mnemonic', 160), ('scripted', 256), ('drought', 16)],
            'thorough': [('channel', 200000), ('sign', 40000), ('mnemonic', 6000), ('scripted', 256), ('drought', 48)]}
    DROUGHTS = [257, 1025, 2049, 4097, 513, 2050, 8200, 1000, 3000, 5000, 300, 1500, 2500, 6000, 10001, 700]
    DROUGHTS_THOROUGH = [16385, 20000, 32769, 50000, 65537, 70000]
    budget = {'quick': 100, 'thorough': 1500}
    real_code = ['pytoniq_core.crypto.ciphers (Client, Server, AdnlChannel.encrypt/decrypt, get_shared_key, get_signature, key/iv derivation) on BOTH ends of every channel',
                 'pytoniq_core.crypto.signature (verify_sign, sign_message)', 'pytoniq_core.crypto.keys (mnemonic_new, mnemonic_is_valid, mnemonic_to_wallet_key, mnemonic_to_private_key, get_secure_random_number)']
    stubs = ['datagram net (drop, duplicate, delay/reorder, bit flip, mis-route) on the detsim kernel', 'receiver glue (key-id match, decrypt, SHA-256 compare) in the order pytoniq\'s ADNL transport uses',
             'entropy seam replacing nacl.signing.random, Cryptodome get_random_bytes and os.urandom as seen by crypto/keys.py', 'reference mnemonic derivation from hashlib + PyNaCl bindings',
             'AES, SHA-2, X25519 and Ed25519 primitives are the real third-party ones (trusted)']

    def rule(self):
        return ('channel: each run opens a channel in both directions between every pair of 2..4 peers whose keys (one per channel end, or one long-term key per peer) are drawn through the entropy seam (uniform, all-zero, all-ones, low, high, '
                'sparse, identical keys) and whose ids are natural, equal or adjacent; 3..24 messages (0..2000 bytes) are sent in seeded directions over a net that drops, duplicates, delays/reorders, '
                'flips one bit or mis-routes; every arrival goes through the receiver glue. Intact arrivals at the addressee must be accepted and decrypt to the sent plaintext, whatever the order or '
                'multiplicity; bytes 0..32 must be the key id the addressee expects and bytes 32..64 the SHA-256 of the plaintext; a damaged or mis-routed arrival may only be rejected or yield '
                'the sent plaintext; after healing every message that never arrived intact is resent and must be accepted. '
                'sign: Client.sign / get_signature / sign_message outputs verify under the matching key and do not verify under another key, an altered message (every class: bit flip, truncation, '
                'extension, empty) or any of the 512 single-bit alterations of the signature. '
                'mnemonic: mnemonic_new under each entropy mode returns 24 list words that mnemonic_is_valid accepts; derivation is repeatable, independent of interleaved derivations of other '
                'mnemonics, equal to the reference derivation and (thorough, sampled) to the derivation in a fresh interpreter under another PYTHONHASHSEED. '
                'Non-trivial = at least one fault fired or a biased entropy mode was used; distinct = distinct (op-kind sequence, fault/probe set).')

    def assumptions(self):
        return ['AES-CTR (Cryptodome), SHA-2 (hashlib), X25519 (x25519 package) and Ed25519 (libsodium via PyNaCl) are trusted primitives',
                '"fails" for a signature means verify_sign does not return True (returning False and raising are both failures)',
                'carve-outs: words_count != 24; constant or periodic entropy streams (mnemonic_new cannot terminate on one)',
                'SHA-256 collisions are ignored (a damaged packet whose checksum still matches is treated as impossible)']

    # ------------------------------------------------------------------ config
    def make_config(self, rng, leg, run_index):
        if leg == 'channel':
            return {'peers': rng.choice([2, 2, 3, 3, 4]), 'entropy_seed': rng.getrandbits(64),
                    'entropy_mode': rng.choice(['uniform', 'uniform', 'uniform', 'zeros', 'ones', 'low', 'high', 'sparse', 'same']),
                    'ids': rng.choice(['natural', 'natural', 'equal', 'adjacent', 'reversed']), 'keying': rng.choice(['per-pair', 'per-peer']),
                    'net': {'drop': rng.choice([0, 0.1, 0.3]), 'dup': rng.choice([0, 0.2, 0.5]), 'jitter': rng.choice([0, 3, 12]), 'flip': rng.choice([0, 0.15, 0.4])},
                    'misroute': rng.choice([0, 0, 0.2]), 'msgs': rng.choice([3, 6, 12, 24]), 'steps': 400}
        if leg == 'sign':
            return {'entropy_seed': rng.getrandbits(64), 'entropy_mode': rng.choice(['uniform', 'uniform', 'zeros', 'ones', 'low', 'same']), 'steps': rng.choice([2, 4, 8])}
        if leg == 'scripted':
            return {'first': run_index * 64, 'count': 64, 'steps': 64}
        if leg == 'drought':
            ks = self.DROUGHTS + (self.DROUGHTS_THOROUGH if self.tier == 'thorough' else [])
            return {'k': ks[run_index % len(ks)] + (run_index // len(ks)), 'seed': rng.getrandbits(32), 'phrase': rng.getrandbits(20), 'steps': 1}
        return {'steps': rng.choice([3, 5, 8]), 'fresh': self.tier == 'thorough' and rng.random() < 0.08}

    def V(self, ctx, invariant, opkind, klass, msg):
        return ctx.violation(Violation(self.prop, invariant, opkind, klass, msg))

    # ------------------------------------------------------------------ state
    def new_state(self, ctx):
        st = St()
        st.leg = ctx.leg
        st.queue = []
        st.phase = 0
        if ctx.leg == 'channel':
            self._open(st, ctx)
        elif ctx.leg == 'sign':
            seam = EntropySeam(ctx.cfg['entropy_seed'], ctx.cfg['entropy_mode'])
            with entropy_everywhere(seam):
                st.keys = [lc.Client.generate_ed25519_private_key() for _ in range(3)]
            if seam.calls == 0:
                # a key generator that draws from a source the seam does not own: the keys are replaced by seam-drawn ones so that
                # the run stays a function of its seed (reported in the evidence, not an error of the library)
                st.keys = [bytes(seam(32)) for _ in range(3)]
                ctx.probe('entropy-seam-not-reached-keys-drawn-by-the-harness')
            if ctx.cfg['entropy_mode'] != 'uniform':
                ctx.fault('biased-entropy-' + ctx.cfg['entropy_mode'])
            kr = random.Random(ctx.cfg['entropy_seed'] ^ 0xabcdef)
            st.other = bytes(kr.getrandbits(8) for _ in range(32))
        else:
            st.mn = []
        return st

    def _open(self, st, ctx):
        cfg = ctx.cfg
        n = cfg['peers']
        seam = EntropySeam(cfg['entropy_seed'], cfg['entropy_mode'])
        with entropy_everywhere(seam):
            if cfg.get('keying') == 'per-peer':
                # one long-term key per peer, used towards every other peer (Client / Server used directly, as a lite-client does)
                own = [lc.Client.generate_ed25519_private_key() for _ in range(n)]
                st.ckey = {(i, j): own[i] for i in range(n) for j in range(n) if i != j}
                ctx.probe('one-key-per-peer')
            else:
                # one channel key per ordered pair endpoint, as each side generates a fresh key per channel
                st.ckey = {(i, j): lc.Client.generate_ed25519_private_key() for i in range(n) for j in range(n) if i != j}
        if seam.calls == 0:
            st.ckey = {k: bytes(seam(32)) for k in sorted(st.ckey)}
            if cfg.get('keying') == 'per-peer':
                own = {}
                st.ckey = {(i, j): own.setdefault(i, st.ckey[(i, j)]) for (i, j) in sorted(st.ckey)}
            ctx.probe('entropy-seam-not-reached-keys-drawn-by-the-harness')
        if cfg['entropy_mode'] != 'uniform':
            ctx.fault('biased-entropy-' + cfg['entropy_mode'])
        ir = random.Random(cfg['entropy_seed'] ^ 0x1d5)
        main = [bytes(ir.getrandbits(8) for _ in range(32)) for _ in range(n)]
        ids = [hashlib.sha256(ID_MAGIC + bytes(nacl.signing.SigningKey(m).verify_key)).digest() for m in main]
        mode = cfg['ids']
        if mode == 'equal':
            ids = [ids[0]] * n
            ctx.probe('peer-ids-equal')
        elif mode == 'adjacent':
            ids = [ids[0][:31] + bytes([(ids[0][31] + k) % 256]) for k in range(n)]
            ctx.probe('peer-ids-differ-in-last-byte')
        elif mode == 'reversed':
            ids = sorted(ids, reverse=True)
        if n >= 2 and ids[0] > ids[1]:
            ctx.probe('first-peer-id-greater')
        elif n >= 2 and ids[0] < ids[1]:
            ctx.probe('first-peer-id-smaller')
        st.ids = ids
        st.chan = {}
        for (i, j), priv in st.ckey.items():
            peer_pub = bytes(nacl.signing.SigningKey(st.ckey[(j, i)]).verify_key)
            ok, ch = call(lambda: lc.AdnlChannel(lc.Client(priv), lc.Server('127.0.0.1', 0, peer_pub), ids[i], ids[j]))
            if not ok:
                self.V(ctx, 'channel-open-fails', 'open', cfg['entropy_mode'], 'AdnlChannel(...) raised %r' % (ch,))
                raise AssertionError('unreachable')
            st.chan[(i, j)] = ch
        st.sent = {}
        st.intact = set()

    # ------------------------------------------------------------------ generation
    def gen_op(self, st, ctx):
        if st.queue:
            return st.queue.pop(0)
        if st.phase:
            return None
        st.phase = 1
        rng = ctx.rng
        if st.leg == 'channel':
            self._simulate(st, ctx)
        elif st.leg == 'sign':
            for _ in range(ctx.cfg['steps']):
                n = rng.choice([0, 1, 31, 32, 33, 64, 200, 5000])
                st.queue.append({'op': 'sign', 'key': rng.randrange(3), 'route': rng.choice(['client', 'get_signature', 'sign_message', 'sign_message_enc']),
                                 'enc': rng.choice(['hex', 'base16', 'base32', 'base64', 'urlsafe-base64', 'raw']),
                                 'msg': bytes(rng.getrandbits(8) for _ in range(n)).hex(), 'alt_seed': rng.getrandbits(32)})
        elif st.leg == 'drought':
            st.queue.append({'op': 'drought', 'k': ctx.cfg['k'], 'seed': ctx.cfg['seed'], 'phrase': ctx.cfg['phrase']})
        elif st.leg == 'scripted':
            # the entropy source happens to deliver exactly the bytes that spell a valid phrase (pinned corpus of phrases found by
            # the reference rule): mnemonic_new returns at its first candidate, so thousands of generated phrases cost milliseconds each
            for k in range(ctx.cfg['count']):
                st.queue.append({'op': 'scripted_new', 'phrase': ctx.cfg['first'] + k, 'pad_seed': rng.getrandbits(32)})
        else:
            k = 0
            for _ in range(ctx.cfg['steps']):
                r = rng.random()
                if k == 0 or r < 0.3:
                    st.queue.append({'op': 'new', 'mode': rng.choice(['uniform', 'uniform', 'low', 'high', 'sparse']), 'entropy_seed': rng.getrandbits(64),
                                     'password': rng.choice([None, None, None, '', 'correct horse', '\u043f\u0430\u0440\u043e\u043b\u044c'])})
                    k += 1
                elif r < 0.6:
                    st.queue.append({'op': 'derive', 'i': rng.randrange(k), 'fresh': bool(ctx.cfg.get('fresh')) and rng.random() < 0.5,
                                     'via': rng.choice(['wallet', 'wallet', 'private']), 'then': rng.getrandbits(14) if rng.random() < 0.5 else None})
                elif r < 0.7:
                    st.queue.append({'op': 'seed', 'i': rng.randrange(k), 'salt': rng.choice(['TON default seed', 'TON HD Keys seed', 'TON fast seed version', 'salt-%d' % rng.randrange(4)])})
                elif r < 0.85:
                    st.queue.append({'op': 'validate', 'i': rng.randrange(k)})
                else:
                    st.queue.append({'op': 'tamper', 'i': rng.randrange(k), 'pos': rng.randrange(24), 'word': rng.randrange(2048), 'how': rng.choice(['replace', 'drop', 'append', 'swap'])})
        return st.queue.pop(0) if st.queue else None

    def _simulate(self, st, ctx):
        """Run the datagram net on the kernel; the concrete send / arrival order becomes the op list."""
        rng, cfg = ctx.rng, ctx.cfg
        n = cfg['peers']
        sim = Sim(rng, ctx)
        events = []
        net = Net(sim, dict(cfg['net'], flip=0), lambda dst, payload, meta: events.append(dict(meta['op'])))
        arrived_intact = set()

        def send(mid, src, dst, size):
            payload = bytes(rng.getrandbits(8) for _ in range(size))
            events.append({'op': 'send', 'mid': mid, 'src': src, 'dst': dst, 'payload': payload.hex()})
            to = dst
            flip = None
            if rng.random() < cfg['net']['flip']:
                flip = rng.randrange((64 + size) * 8)
            if n > 2 and rng.random() < cfg['misroute']:
                to = next(k for k in range(n) if k not in (src, dst))
            net.send(to, b'', {'op': {'op': 'deliver', 'mid': mid, 'to': to, 'flip': flip}})

        for mid in range(cfg['msgs']):
            src = rng.randrange(n)
            dst = rng.choice([k for k in range(n) if k != src])
            size = rng.choice([0, 1, 15, 16, 17, 32, 100, 1000, 2000])
            sim.after(rng.randrange(6), send, mid, src, dst, size)
        sim.run()
        sends = {e['mid']: e for e in events if e['op'] == 'send'}
        for e in events:
            if e['op'] == 'deliver':
                if e['flip'] is not None:
                    ctx.fault('bitflip-in-packet')
                if e['to'] != sends[e['mid']]['dst']:
                    ctx.fault('misrouted')
                if e['flip'] is None and e['to'] == sends[e['mid']]['dst']:
                    arrived_intact.add(e['mid'])
        st.queue.extend(events)
        # healing: faults stop; everything that never arrived intact is resent once
        for mid in sorted(sends):
            if mid not in arrived_intact:
                st.queue.append({'op': 'resend', 'mid': mid})
        st.queue.append({'op': 'final'})

    # ------------------------------------------------------------------ execution
    def apply(self, st, op, ctx):
        getattr(self, 'op_' + op['op'])(st, op, ctx)

    # ---- channel ----
    def _idclass(self, st, a, b):
        return 'ids-equal' if st.ids[a] == st.ids[b] else ('local-id-greater' if st.ids[a] > st.ids[b] else 'local-id-smaller')

    def op_send(self, st, op, ctx):
        n = ctx.cfg['peers']
        src, dst = op['src'] % n, op['dst'] % n
        if src == dst:
            dst = (src + 1) % n
        payload = bytes.fromhex(op['payload'])
        ch = st.chan[(src, dst)]
        klass = self._idclass(st, src, dst)
        if op['mid'] % 3 == 1:
            # the sender hands over a mutable buffer it keeps (for retransmission): a bytearray is a bytes-like plaintext, and
            # encrypting it must neither change it nor give another packet than for the same bytes
            buf = bytearray(payload)
            ok, pkt = call(ch.encrypt, buf)
            ctx.probe('plaintext-in-a-mutable-buffer')
            if ok and bytes(buf) != payload:
                self.V(ctx, 'argument-changed', 'encrypt', 'bytearray-plaintext', 'AdnlChannel.encrypt changed the plaintext buffer it was given')
                return
            if ok:
                ok2, pkt2 = call(ch.encrypt, buf)
                if not ok2 or bytes(pkt2[32:64]) != hashlib.sha256(payload).digest():
                    self.V(ctx, 'checksum-field', 'encrypt', 'bytearray-plaintext-sent-again', 'the same buffer encrypted again does not carry the SHA-256 of the message')
                    return
                pkt = bytes(pkt)
        else:
            ok, pkt = call(ch.encrypt, payload)
        if not ok:
            if op['mid'] % 3 == 1:
                ok, pkt = call(ch.encrypt, payload)      # a library may insist on bytes
        if not ok:
            self.V(ctx, 'encrypt-fails', 'encrypt', klass, 'AdnlChannel.encrypt raised %r' % (pkt,))
            return
        ctx.evaluated(1)
        ctx.obs(pkt)
        peer = st.chan[(dst, src)]
        if len(pkt) != 64 + len(payload):
            self.V(ctx, 'packet-layout', 'encrypt', klass, 'packet is %d bytes for a %d byte plaintext (expected 64 + plaintext)' % (len(pkt), len(payload)))
        if pkt[32:64] != hashlib.sha256(payload).digest():
            self.V(ctx, 'checksum-field', 'encrypt', klass, 'bytes 32..64 of the packet are not the SHA-256 of the plaintext')
        if pkt[:32] != hashlib.sha256(b'\xd4\xad\xbc-' + peer.dec_key).digest() or pkt[:32] != peer.server_aes_key_id:
            self.V(ctx, 'key-id-field', 'encrypt', klass, 'bytes 0..32 of the packet are not the key id the peer expects (id of the peer\'s decryption key)')
        st.sent[op['mid']] = (src, dst, payload, pkt)

    def _receive(self, st, to, src, pkt):
        """Receiver glue: (accepted, plaintext or reason)."""
        ch = st.chan[(to, src)]
        if len(pkt) < 64 or pkt[:32] != ch.server_aes_key_id:
            return False, 'key-id'
        ok, plain = call(ch.decrypt, pkt[64:], pkt[32:64])
        if not ok:
            return False, 'decrypt raised %r' % (plain,)
        if hashlib.sha256(plain).digest() != pkt[32:64]:
            return False, 'checksum'
        return True, plain

    def op_deliver(self, st, op, ctx):
        if op['mid'] not in st.sent:
            return
        n = ctx.cfg['peers']
        src, dst, payload, pkt = st.sent[op['mid']]
        to = op['to'] % n
        if to == src:
            to = dst
        flip = op.get('flip')
        data = pkt
        if flip is not None:
            b = bytearray(pkt)
            i = flip % (len(b) * 8)
            b[i // 8] ^= 0x80 >> (i % 8)
            data = bytes(b)
        acc, res = self._receive(st, to, src, data)
        ctx.evaluated(1)
        ctx.obs(acc, res)
        klass = self._idclass(st, src, dst)
        if flip is None and to == dst:
            if op['mid'] in st.intact:
                ctx.probe('duplicate-or-late-arrival')
            if not acc:
                self.V(ctx, 'intact-packet-rejected', 'decrypt', klass, 'an undamaged packet was rejected by the addressee (%s); peers %d->%d, %d byte plaintext' % (res, src, dst, len(payload)))
                return
            if res != payload:
                self.V(ctx, 'decrypts-to-other-plaintext', 'decrypt', klass, 'the addressee decrypted another plaintext than was sent')
                return
            st.intact.add(op['mid'])
        else:
            if acc and res != payload:
                self.V(ctx, 'wrong-data-delivered', 'decrypt', 'damaged' if flip is not None else 'misrouted', 'a damaged or mis-routed packet was accepted with a plaintext that was never sent')
            elif acc and to != dst and st.ckey[(to, src)] != st.ckey[(dst, src)] and st.ids[to] != st.ids[dst]:
                self.V(ctx, 'wrong-data-delivered', 'decrypt', 'misrouted', 'a packet for peer %d was accepted by peer %d' % (dst, to))
            elif not acc:
                ctx.probe('damaged-packet-rejected-by-' + ('key-id' if res == 'key-id' else 'checksum' if res == 'checksum' else 'exception'))

    def op_resend(self, st, op, ctx):
        if op['mid'] not in st.sent:
            return
        src, dst, payload, pkt = st.sent[op['mid']]
        ctx.probe('resent-after-heal')
        ok, pkt2 = call(st.chan[(src, dst)].encrypt, payload)
        if not ok:
            self.V(ctx, 'encrypt-fails', 'encrypt', 'resend', 'AdnlChannel.encrypt raised %r on the retransmission' % (pkt2,))
            return
        acc, res = self._receive(st, dst, src, pkt2)
        ctx.evaluated(1)
        ctx.obs(pkt2 == pkt, acc)
        if not acc or res != payload:
            self.V(ctx, 'liveness-after-heal', 'decrypt', self._idclass(st, src, dst), 'after the faults stopped the retransmitted packet was not delivered (%s)' % (res if not acc else 'other plaintext'))
            return
        st.intact.add(op['mid'])

    def op_final(self, st, op, ctx):
        missing = sorted(set(st.sent) - st.intact)
        if missing:
            self.V(ctx, 'liveness-after-heal', 'run', 'undelivered', 'messages %s were never delivered although every loss was followed by a retransmission' % missing[:5])

    # ---- signatures ----
    def op_sign(self, st, op, ctx):
        seed = st.keys[op['key'] % 3]
        msg = bytes.fromhex(op['msg'])
        sk = nacl.signing.SigningKey(seed)
        pub = bytes(sk.verify_key)
        route = op['route']
        if route == 'client':
            ok, sig = call(lambda: lc.Client(seed).sign(msg))
        elif route == 'get_signature':
            ok, sig = call(lc.get_signature, sk, msg)
        elif route == 'sign_message_enc':
            # the helper's documented encoder parameter: the result is the signature in that encoding
            import nacl.encoding as ne
            enc = {'hex': ne.HexEncoder, 'base16': ne.Base16Encoder, 'base32': ne.Base32Encoder, 'base64': ne.Base64Encoder,
                   'urlsafe-base64': ne.URLSafeBase64Encoder, 'raw': ne.RawEncoder}[op.get('enc', 'hex')]
            ok, sig = call(sign_message, msg, seed + pub, enc)
            if ok:
                ctx.probe('signature-requested-in-encoding/' + op.get('enc', 'hex'))
                try:
                    sig = enc.decode(sig)
                except Exception as e:
                    self.V(ctx, 'signature-shape', route, 'encoding-' + op.get('enc', 'hex'), 'the encoded signature does not decode: %r' % (e,))
                    return
                route = 'sign_message'
                if len(sig) != 64:
                    self.V(ctx, 'signature-shape', route, 'encoding-' + op.get('enc', 'hex'), 'the %s-encoded signature decodes to %d bytes (expected 64)' % (op.get('enc'), len(sig)))
                    return
        else:
            ok, sig = call(sign_message, message=msg, signing_key=seed + pub) if len(msg) % 3 == 0 else call(sign_message, msg, seed + pub)
        if not ok:
            self.V(ctx, 'sign-fails', route, 'len-%d' % min(len(msg), 64), 'signing raised %r' % (sig,))
            return
        ctx.obs(sig)
        if not isinstance(sig, bytes) or len(sig) != 64:
            self.V(ctx, 'signature-shape', route, 'len', 'the signing helper returned %r... (expected 64 bytes)' % (sig[:8],))
            return
        n_eval = 1
        if len(msg) % 2:
            ok, r = call(verify_sign, public_key=pub, signed_message=msg, signature=sig)     # keyword spelling
        else:
            ok, r = call(verify_sign, pub, msg, sig)
        if not (ok and r is True):
            self.V(ctx, 'valid-signature-rejected', route, 'matching-key', 'verify_sign under the matching key returned %r' % (r,))
            return
        ar = random.Random(op['alt_seed'])
        others = [bytes(nacl.signing.SigningKey(st.other).verify_key)]
        others += [bytes(nacl.signing.SigningKey(k).verify_key) for k in st.keys if k != seed]
        for opub in others:
            if opub == pub:
                continue
            ok, r = call(verify_sign, opub, msg, sig)
            n_eval += 1
            if ok and r:
                self.V(ctx, 'forgery-accepted', route, 'other-key', 'verify_sign accepted the signature under another public key')
                return
        alts = []
        if msg:
            for _ in range(8):
                i = ar.randrange(len(msg) * 8)
                b = bytearray(msg)
                b[i // 8] ^= 0x80 >> (i % 8)
                alts.append(('bitflip', bytes(b)))
            alts.append(('truncated', msg[:-1]))
            alts.append(('empty', b''))
        alts.append(('extended', msg + b'\x00'))
        alts.append(('extended', msg + bytes([ar.getrandbits(8)])))
        alts.append(('prefixed', b'\x00' + msg))
        for kind, m2 in alts:
            if m2 == msg:
                continue
            ok, r = call(verify_sign, pub, m2, sig)
            n_eval += 1
            if ok and r:
                self.V(ctx, 'forgery-accepted', route, 'message-' + kind, 'verify_sign accepted the signature for an altered message (%s)' % kind)
                return
        ctx.fault('altered-message', len(alts))
        for i in range(512):
            b = bytearray(sig)
            b[i // 8] ^= 0x80 >> (i % 8)
            ok, r = call(verify_sign, pub, msg, bytes(b))
            if ok and r:
                self.V(ctx, 'forgery-accepted', route, 'signature-bit-%s' % ('R' if i < 256 else 'S'), 'verify_sign accepted the signature with bit %d flipped' % i)
                return
        x = bytes(ar.getrandbits(8) for _ in range(ar.choice([1, 4, 32])))
        for cut in (sig[:63], sig + b'\x00', b'', sk.sign(x + msg).signature + x):
            ok, r = call(verify_sign, pub, msg, cut)
            if ok and r:
                self.V(ctx, 'forgery-accepted', route, 'signature-length', 'verify_sign accepted a %d byte signature' % len(cut))
                return
        # a relay that re-frames signature || message at another boundary: both parts are altered although their
        # concatenation is not
        n_re = 0
        for k in sorted({1, 2, 3, 32, 63, 64, 1 + ar.randrange(63)}):
            cands = [('shortened', sig[:64 - k], sig[64 - k:] + msg)]
            if len(msg) >= k:
                cands.append(('lengthened', sig + msg[:k], msg[k:]))
            for kind, s2, m2 in cands:
                ok, r = call(verify_sign, pub, m2, s2)
                n_re += 1
                if ok and r:
                    self.V(ctx, 'forgery-accepted', route, 'reframed-' + kind, 'verify_sign accepted a %d byte signature for another message (signature||message re-split %d bytes %s)'
                           % (len(s2), k, 'earlier' if kind == 'shortened' else 'later'))
                    return
        ctx.fault('reframed-signature-and-message', n_re)
        # the non-canonical twin (R, S + L) of the signature is an altered signature too
        s_int = int.from_bytes(sig[32:], 'little') + ED25519_L
        if s_int < 2 ** 256:
            ok, r = call(verify_sign, pub, msg, sig[:32] + s_int.to_bytes(32, 'little'))
            n_re += 1
            ctx.fault('non-canonical-S')
            if ok and r:
                self.V(ctx, 'forgery-accepted', route, 'signature-S-plus-L', 'verify_sign accepted the non-canonical twin (R, S+L) of the signature')
                return
        ctx.fault('altered-signature', 515)
        ctx.evaluated(n_eval + 515 + n_re)

    # ---- mnemonics ----
    def op_new(self, st, op, ctx):
        seam = EntropySeam(op['entropy_seed'], op['mode'])
        shim = types.SimpleNamespace(urandom=seam)
        pw = op.get('password')
        with patched(lk, 'os', shim):
            ok, words = call(lk.mnemonic_new) if pw is None else call(lk.mnemonic_new, 24, pw)
        if pw is not None:
            ctx.probe('mnemonic-generated-with-the-password-argument/%s' % ('empty' if pw == '' else 'non-empty'))
        if seam.calls == 0:
            raise AssertionError('entropy seam not reached by mnemonic_new')
        ctx.count('entropy_bytes_drawn', seam.bytes)
        if op['mode'] != 'uniform':
            ctx.fault('biased-entropy-' + op['mode'])
        if seam.calls > 24:
            ctx.probe('mnemonic-candidates-rejected', seam.calls // 24 - 1)
        if not ok:
            self.V(ctx, 'mnemonic-new-fails', 'mnemonic_new', op['mode'], 'mnemonic_new raised %r' % (words,))
            return
        ctx.obs(words)
        ctx.evaluated(1)
        wl = set(lk.words)
        if not isinstance(words, list) or len(words) != 24 or any(w not in wl for w in words):
            self.V(ctx, 'mnemonic-shape', 'mnemonic_new', op['mode'], 'mnemonic_new returned %r' % (words,))
            return
        ok, v = call(lk.mnemonic_is_valid, words)
        pw_aware = False
        if pw:
            # a library whose validator takes the password too may validate the phrase together with it (the statement does not say
            # which rule a password-protected phrase follows); one whose validator has no such parameter must accept what it generated
            try:
                pw_aware = 'password' in inspect.signature(lk.mnemonic_is_valid).parameters
            except (TypeError, ValueError):
                pw_aware = False
            if pw_aware and not (ok and v is True):
                ok, v = call(lk.mnemonic_is_valid, words, password=pw)
        if not (ok and v is True):
            self.V(ctx, 'generated-mnemonic-invalid', 'mnemonic_is_valid', op['mode'] + ('/password-argument' if pw else ''),
                   'mnemonic_is_valid(mnemonic_new(%s)) = %r for %s' % ('' if pw is None else '24, %r' % pw, v, ' '.join(words)))
            return
        if not pw_aware and not ref_is_basic_seed(ref_entropy(words)):
            self.V(ctx, 'generated-mnemonic-invalid', 'reference', op['mode'], 'the generated mnemonic is not a TON basic seed by the reference rule: %s' % ' '.join(words))
            return
        st.mn.append({'words': words, 'key': None})

    def op_scripted_new(self, st, op, ctx):
        corpus = _corpus()
        if not corpus:
            return
        idx = corpus[op['phrase'] % len(corpus)]
        phrase = [refmn.WORDS[i] for i in idx]
        pad = random.Random(op['pad_seed'])
        script = list(idx)
        fallback = EntropySeam(op['pad_seed'], 'uniform')
        state = {'calls': 0}

        def urandom(n=32):
            # get_secure_random_number reads a big-endian number from the leading ceil(11/8) bytes; when the script is used up
            # (the library did not accept the phrase, or maps bytes to words differently) the stream goes on uniformly
            state['calls'] += 1
            if script and n >= 2:
                i = script.pop(0)
                return bytes([i >> 8 | (pad.getrandbits(5) << 3), i & 0xff]) + bytes(pad.getrandbits(8) for _ in range(n - 2))
            return fallback(n)
        with patched(lk, 'os', types.SimpleNamespace(urandom=urandom)):
            ok, words = call(lk.mnemonic_new)
        ctx.fault('entropy-spells-valid-phrase')
        ctx.evaluated(1)
        if not ok:
            self.V(ctx, 'mnemonic-new-fails', 'mnemonic_new', 'scripted', 'mnemonic_new raised %r' % (words,))
            return
        if not isinstance(words, list) or len(words) != 24 or any(w not in _WORDSET for w in words):
            self.V(ctx, 'mnemonic-shape', 'mnemonic_new', 'scripted', 'mnemonic_new returned %r' % (words,))
            return
        if words == phrase:
            ctx.probe('scripted-phrase-returned-at-first-candidate')
        else:
            ctx.probe('scripted-phrase-not-taken')
        ok, v = call(lk.mnemonic_is_valid, list(words))
        if not (ok and v is True):
            self.V(ctx, 'generated-mnemonic-invalid', 'mnemonic_is_valid', 'scripted', 'mnemonic_is_valid(mnemonic_new()) = %r for %s' % (v, ' '.join(words)))
            return
        if not refmn.is_basic_seed_ref(words):
            self.V(ctx, 'generated-mnemonic-invalid', 'reference', 'scripted', 'the generated mnemonic is not a TON basic seed by the reference rule: %s' % ' '.join(words))
            return
        ok, v = call(lk.mnemonic_is_valid, list(phrase))
        if not (ok and v is True):
            # a phrase that IS valid by the TON rule, and that mnemonic_new can therefore return, is refused
            self.V(ctx, 'validity-differs-from-rule', 'mnemonic_is_valid', 'valid-phrase', 'mnemonic_is_valid = %r for the valid phrase %s' % (v, ' '.join(phrase)))

    def op_drought(self, st, op, ctx):
        """A dry spell of the entropy source: k candidate phrases in a row that (almost surely) are not basic seeds - for honest
        randomness a run of k failures has probability (255/256)^k, so every length occurs in the field - followed by the bytes that
        spell a valid phrase.  Whatever the length of the spell, what mnemonic_new finally returns must be valid."""
        corpus = _corpus()
        if not corpus:
            return
        idx = corpus[op['phrase'] % len(corpus)]
        dr = random.Random(op['seed'])
        fallback = EntropySeam(op['seed'], 'uniform')
        state = {'left': op['k'], 'cand': [], 'script': list(idx), 'calls': 0}

        def next_invalid():
            # one random candidate in 256 is valid by chance: those are passed over, so that the spell really is k candidates long
            while True:
                c = [dr.getrandbits(11) for _ in range(24)]
                if not refmn.is_basic_seed_ref([refmn.WORDS[i] for i in c]):
                    return c

        def urandom(n=32):
            state['calls'] += 1
            if n >= 2 and not state['cand'] and state['left'] > 0:
                state['left'] -= 1
                state['cand'] = next_invalid()
            if n >= 2 and state['cand']:
                i = state['cand'].pop(0)
            elif n >= 2 and state['script']:
                i = state['script'].pop(0)
            else:
                return fallback(n)
            return bytes([i >> 8 | (dr.getrandbits(5) << 3), i & 0xff]) + bytes(n - 2)
        with patched(lk, 'os', types.SimpleNamespace(urandom=urandom)):
            ok, words = call(lk.mnemonic_new)
        ctx.fault('entropy-dry-spell')
        ctx.evaluated(1)
        tried = state['calls'] // 24
        ctx.probe('candidates-rejected-in-a-row/%s' % ('<1000' if tried < 1000 else '<2100' if tried < 2100 else '<4200' if tried < 4200 else '<10000' if tried < 10000 else '>=10000'))
        if not ok:
            self.V(ctx, 'mnemonic-new-fails', 'mnemonic_new', 'dry-spell', 'mnemonic_new raised %r after %d candidates' % (words, tried))
            return
        if not isinstance(words, list) or len(words) != 24 or any(w not in _WORDSET for w in words):
            self.V(ctx, 'mnemonic-shape', 'mnemonic_new', 'dry-spell', 'mnemonic_new returned %r' % (words,))
            return
        okv, v = call(lk.mnemonic_is_valid, list(words))
        if not (okv and v is True) or not refmn.is_basic_seed_ref(words):
            self.V(ctx, 'generated-mnemonic-invalid', 'mnemonic_new', 'dry-spell',
                   'after %d rejected candidates mnemonic_new returned a phrase that is not valid (mnemonic_is_valid = %r, reference rule = %r): %s'
                   % (tried - 1, v, refmn.is_basic_seed_ref(words), ' '.join(words)))

    def op_validate(self, st, op, ctx):
        if not st.mn:
            return
        m = st.mn[op['i'] % len(st.mn)]
        ok, v = call(lk.mnemonic_is_valid, list(m['words']))
        ctx.evaluated(1)
        if not (ok and v is True):
            self.V(ctx, 'generated-mnemonic-invalid', 'mnemonic_is_valid', 'revalidate', 'a generated mnemonic was valid once and is %r later' % (v,))

    def op_tamper(self, st, op, ctx):
        if not st.mn:
            return
        w = list(st.mn[op['i'] % len(st.mn)]['words'])
        how = op['how']
        if how == 'replace':
            w[op['pos'] % 24] = lk.words[op['word'] % 2048]
        elif how == 'drop':
            del w[op['pos'] % 24]
        elif how == 'append':
            w.append(lk.words[op['word'] % 2048])
        else:
            a, b = op['pos'] % 24, op['word'] % 24
            w[a], w[b] = w[b], w[a]
        want = len(w) == 24 and ref_is_basic_seed(ref_entropy(w))
        ok, v = call(lk.mnemonic_is_valid, w)
        ctx.evaluated(1)
        ctx.obs(v if ok else 'raised')
        ctx.fault('tampered-mnemonic-' + how)
        if ok and bool(v) != want:
            self.V(ctx, 'validity-differs-from-rule', 'mnemonic_is_valid', how, 'mnemonic_is_valid = %r, the TON rule says %r for %s' % (v, want, ' '.join(w)))

    def op_seed(self, st, op, ctx):
        """The public seed derivation under another salt (HD wallets use one), interleaved with the wallet-key derivations of the
        same mnemonic: each (mnemonic, salt) has one seed, whatever was derived before."""
        if not st.mn:
            return
        m = st.mn[op['i'] % len(st.mn)]
        words = m['words']
        salt = op['salt'].encode()
        ok, seed = call(lk.mnemonic_to_seed, list(words), salt)
        ctx.evaluated(1)
        if not ok:
            self.V(ctx, 'derivation-fails', 'mnemonic_to_seed', 'valid', 'mnemonic_to_seed raised %r' % (seed,))
            return
        ctx.obs(seed)
        ctx.probe('seed-under-another-salt' if op['salt'] != 'TON default seed' else 'seed-under-the-default-salt')
        seen = m.setdefault('seeds', {})
        if op['salt'] in seen and seen[op['salt']] != seed:
            self.V(ctx, 'derivation-not-deterministic', 'mnemonic_to_seed', 'repeat', 'two seed derivations from the same mnemonic and salt differ')
            return
        for other, sd in seen.items():
            if other != op['salt'] and sd == seed:
                self.V(ctx, 'derivation-not-deterministic', 'mnemonic_to_seed', 'salt-ignored-after-earlier-derivation',
                       'the seed under salt %r equals the seed derived earlier under salt %r: the result depends on which derivation ran first' % (op['salt'], other))
                return
        seen[op['salt']] = seed
        want = hashlib.pbkdf2_hmac('sha512', ref_entropy(words), salt, 100000)
        if seed != want:
            self.V(ctx, 'derivation-differs-from-reference', 'mnemonic_to_seed', 'history' if m.get('key') or len(seen) > 1 else 'valid',
                   'mnemonic_to_seed differs from PBKDF2-HMAC-SHA512(HMAC-SHA512(words), salt, 100000)')

    def op_derive(self, st, op, ctx):
        if not st.mn:
            return
        m = st.mn[op['i'] % len(st.mn)]
        words = m['words']
        # the caller keeps ONE list for the phrase it is working with and overwrites it in place from phrase to phrase
        slots = getattr(st, 'slots', None)
        if slots is None:
            slots = st.slots = []
        slots[:] = words
        fn = lk.mnemonic_to_private_key if op.get('via') == 'private' else lk.mnemonic_to_wallet_key
        ok, kp = call(fn, slots)
        ctx.evaluated(1)
        if slots != list(words):
            self.V(ctx, 'argument-changed', 'mnemonic_to_wallet_key', 'word-list', 'the key derivation changed the word list it was given')
            return
        if not ok:
            self.V(ctx, 'derivation-fails', 'mnemonic_to_wallet_key', 'valid', 'mnemonic_to_wallet_key raised %r' % (kp,))
            return
        ctx.obs(kp)
        pub, priv = kp
        if m['key'] is not None and m['key'] != (pub, priv):
            self.V(ctx, 'derivation-not-deterministic', 'mnemonic_to_wallet_key', 'repeat', 'two derivations from the same mnemonic gave different keys')
            return
        if m['key'] is not None:
            ctx.probe('derived-again-after-other-mnemonics')
        m['key'] = (pub, priv)
        rpub, rpriv = ref_wallet_key(words)
        if (pub, priv) != (rpub, rpriv):
            self.V(ctx, 'derivation-differs-from-reference', 'mnemonic_to_wallet_key', 'valid', 'derived key differs from HMAC-SHA512 / PBKDF2(TON default seed, 100000) / Ed25519 seed keypair')
            return
        ok, p2 = call(lk.private_key_to_public_key, priv)
        if not ok or p2 != pub:
            self.V(ctx, 'keypair-inconsistent', 'private_key_to_public_key', 'valid', 'public key derived from the private key differs from the returned public key')
            return
        ok, sig = call(sign_message, b'C20', priv)
        ok2, r = call(verify_sign, pub, b'C20', sig) if ok else (False, None)
        if not (ok and ok2 and r is True):
            self.V(ctx, 'keypair-inconsistent', 'sign_message', 'valid', 'a signature by the derived private key does not verify under the derived public key')
            return
        corpus = _corpus()
        if op.get('then') is not None and corpus:
            other = [refmn.WORDS[i] for i in corpus[op['then'] % len(corpus)]]
            slots[:] = other
            ctx.probe('same-list-object-holds-another-phrase-now')
            ok, kp2 = call(fn, slots)
            ctx.evaluated(1)
            want = ref_wallet_key(other) if op.get('via') != 'private' else None
            if not ok or (want is not None and tuple(kp2) != tuple(want)) or (want is None and tuple(kp2) == (pub, priv)):
                self.V(ctx, 'derivation-differs-from-reference', 'mnemonic_to_wallet_key', 'list-overwritten-in-place',
                       'after the caller put another phrase into the same list object, the derivation %s' % ('raised %r' % (kp2,) if not ok else 'did not return the key of the phrase the list holds now'))
                return
        # the phrase handed over as other kinds of collection (a tuple; one-shot iterables - the words may come straight from
        # str.split / map / a generator).  A library may insist on a list; if it answers, the answer is the key of the WHOLE phrase
        for form, mk in (('tuple', lambda: tuple(words)), ('iterator', lambda: iter(list(words))), ('generator', lambda: (w for w in words)),
                         ('map', lambda: map(str.strip, list(words)))):
            okf, kpf = call(fn, mk())
            ctx.evaluated(1)
            if okf and tuple(kpf) != (pub, priv):
                ctx.probe('phrase-as-other-collection')
                self.V(ctx, 'derivation-depends-on-container', 'mnemonic_to_wallet_key', 'words-as-' + form,
                       'the same phrase handed over as %s derives another key than as a list' % form)
                return
        ctx.probe('phrase-as-other-collection')
        if op.get('fresh'):
            env = dict(os.environ, PYTHONHASHSEED='1', PYTHONDONTWRITEBYTECODE='1')
            code = ('import sys; sys.path.insert(0, %r); from pytoniq_core.crypto.keys import mnemonic_to_wallet_key as f; '
                    'a, b = f(%r); print(a.hex(), b.hex())' % (lib.REPO, list(words)))
            p = subprocess.run([sys.executable, '-c', code], capture_output=True, text=True, env=env, timeout=120)
            ctx.probe('fresh-interpreter-derivation')
            if p.returncode != 0 or p.stdout.split() != [pub.hex(), priv.hex()]:
                self.V(ctx, 'derivation-not-deterministic', 'mnemonic_to_wallet_key', 'fresh-interpreter', 'derivation in a fresh interpreter gave %s' % (p.stdout.strip()[:80] or p.stderr.strip()[-200:]))

    # ------------------------------------------------------------------ shrinking
    def shrink_op(self, op):
        if op['op'] == 'send' and len(op['payload']) > 2:
            yield dict(op, payload=op['payload'][:2])
            yield dict(op, payload='')
        if op['op'] == 'sign' and len(op['msg']) > 2:
            yield dict(op, msg=op['msg'][:2])
        if op['op'] == 'deliver' and op.get('flip') is not None:
            yield dict(op, flip=None)
