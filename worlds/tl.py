"""TL world (C14): two peers exchange frames of the bundled schemas; a reference TL codec taps the wire in both
directions; the schema directory is listed in each of its 6 orders through an os.listdir seam."""
import json
import itertools
import os
import collections
import random
import types

from detsim import lib
from detsim.clock import metered
from detsim.core import HistoryWorld, Violation
from refmodel import tl as reftl
from .common import call

from pytoniq_core.tl import generator as lg
from pytoniq_core.tl.block import BlockId, BlockIdExt

SCHEMA_DIR = os.path.join(lib.PKG_DIR, 'tl', 'schemas')
FILES = ['lite_api.tl', 'ton_api.tl', 'tonlib_api.tl']
ORDERS = list(itertools.permutations(FILES))
PARSE_BUDGET = 400000   # step-clock backstop for one deserialize call (a 100 kB frame needs < 60 k lines)

_REF = None


def ref_schema():
    """Reference schema of the node + lite-server files (the property's domain); tonlib only contributes known ids."""
    global _REF
    if _REF is None:
        cs = []
        for f in ('lite_api.tl', 'ton_api.tl'):
            with open(os.path.join(SCHEMA_DIR, f)) as fh:
                cs += reftl.parse_schema_text(fh.read(), f)
        s = reftl.Schema(cs)
        ids = set(c.id for c in s.all)
        try:
            with open(os.path.join(SCHEMA_DIR, 'tonlib_api.tl')) as fh:
                ids |= set(c.id for c in reftl.parse_schema_text(fh.read(), 'tonlib_api.tl'))
        except reftl.TlModelError:
            pass
        s.known_ids = ids
        s.domain = sorted(c.name for c in s.by_name.values() if s.constructor_supported(c))
        s.mind = _min_depths(s)
        _REF = s
    return _REF


def _min_depths(s):
    INF = 10 ** 6
    mind = {c.name: INF for c in s.by_name.values()}

    def tdepth(t):
        if t in reftl.BASE or t in ('Bool', 'bytes', 'string'):
            return 0
        if reftl.vector_elem(t) is not None:
            return 0
        if reftl.is_bare_name(t):
            return mind.get(t, INF)
        opts = s.by_class.get(t, [])
        return min([mind[c.name] for c in opts] or [INF])

    changed = True
    while changed:
        changed = False
        for c in s.by_name.values():
            d = 1 + max([tdepth(f.type) for f in c.fields if f.cond is None] or [0])
            if d < mind[c.name]:
                mind[c.name] = d
                changed = True
    return mind


# ---------------------------------------------------------------------------------------------
# value generation (seeded), JSON form for traces, normalisation for comparison
# ---------------------------------------------------------------------------------------------

STR_LENS = [0, 1, 2, 3, 4, 5, 7, 8, 252, 253, 254, 255, 256, 257, 1000]
CHARS = 'abcXYZ019 _-./:éЖ中\U0001F600'
EDGE_CHARS = ['\ufeff', '\x00', ' ', '\n', '\t', '\r', '\u2028', '\u0301', '\u200f', '\ufffe', '\x7f', '\xa0']



class _AppDict(dict):
    """An application's own dict subclass (adds nothing)."""

class Gen:
    def __init__(self, rng, ref, extra_ids=()):
        self.rng, self.ref = rng, ref
        self.bad_prefixes = set(i.to_bytes(4, 'little') for i in ref.known_ids) | set(extra_ids)
        self.tags = set()

    def payload(self, n):
        rng = self.rng
        while True:
            b = bytes(rng.getrandbits(8) for _ in range(n))
            if b[:4] not in self.bad_prefixes:
                return b

    def text(self, nbytes):
        rng = self.rng
        while True:
            parts, total = [], 0
            # text is any sequence of code points: some start or end with the ones codecs and tidy-minded parsers like to eat
            # (byte-order mark, NUL, white space, line separators, a combining mark with nothing to combine with)
            edge = rng.random()
            first = rng.choice(EDGE_CHARS) if edge < 0.25 else None
            last = rng.choice(EDGE_CHARS) if 0.15 < edge < 0.35 else None
            if first and len(first.encode()) <= nbytes:
                parts.append(first)
                total += len(first.encode())
                self.tags.add('text-starts-with-U+%04X' % ord(first))
            room = len(last.encode()) if last else 0
            if last and total + room <= nbytes:
                nbytes_body = nbytes - room
            else:
                last, nbytes_body = None, nbytes
            while total < nbytes_body:
                ch = rng.choice(CHARS)
                n = len(ch.encode())
                if total + n > nbytes_body:
                    ch, n = 'a', 1
                parts.append(ch)
                total += n
            if last:
                parts.append(last)
            s = ''.join(parts)
            if s.encode()[:4] not in self.bad_prefixes:
                return s

    def length(self):
        rng = self.rng
        r = rng.random()
        if r < 0.02:
            self.tags.add('len-65536')
            return rng.choice([65535, 65536, 70000])
        n = rng.choice(STR_LENS)
        if n in (252, 253, 254, 255, 256, 257):
            self.tags.add('len-%d' % n)
        return n

    def value(self, t, depth):
        rng = self.rng
        if t == 'int':
            return rng.choice([0, 1, -1, 2 ** 31 - 1, -2 ** 31, rng.getrandbits(31), -rng.getrandbits(20)])
        if t == 'long':
            return rng.choice([0, 1, -1, 2 ** 63 - 1, -2 ** 63, rng.getrandbits(63), -rng.getrandbits(40)])
        if t == '#':
            v = rng.choice([0, 1, 2, 1000, 2 ** 31 - 1, 2 ** 31, 2 ** 32 - 1, rng.getrandbits(16)])
            if v >= 2 ** 31:
                self.tags.add('nat-bit31')
            return v
        if t in ('int128', 'int256'):
            n = reftl.BASE[t]
            return rng.choice([bytes(n), b'\xff' * n, bytes(rng.getrandbits(8) for _ in range(n))]).hex()
        if t == 'Bool':
            return rng.random() < 0.5
        if t == 'bytes':
            return self.payload(self.length())
        if t == 'string':
            self.tags.add('string')
            return self.text(self.length())
        e = reftl.vector_elem(t)
        if e is not None:
            n = 0 if depth <= 0 else rng.choice([0, 1, 1, 2, 3, 5] + ([40] if depth >= 3 and rng.random() < 0.1 else []))
            self.tags.add('vector-of-' + _tclass(e))
            return [self.value(e, depth - 1) for _ in range(n)]
        if reftl.is_bare_name(t):
            return self.obj(self.ref.by_name[t], depth - 1, typed=False)
        opts = self.ref.class_options(t)
        if depth <= 1:
            m = min(self.ref.mind[c.name] for c in opts)
            opts = [c for c in opts if self.ref.mind[c.name] == m]
        if len(self.ref.by_class.get(t, [])) > 1:
            self.tags.add('polymorphic')
        return self.obj(rng.choice(opts), depth - 1, typed=True)

    def obj(self, c, depth, typed=True):
        rng = self.rng
        v = {}
        if typed:
            v['@type'] = c.name
        # flag bits: one decision per (flags field, bit)
        conds = sorted(set(f.cond for f in c.fields if f.cond is not None))
        bits = {}
        for cond in conds:
            only_true = all(f.type == 'true' for f in c.fields if f.cond == cond)
            bits[cond] = (not only_true) and depth > 0 and rng.random() < 0.5
        flag_fields = set(cond[0] for cond in conds)
        for f in c.fields:
            if f.name in flag_fields and f.type == '#':
                used = set(b for (n, b) in conds if n == f.name)
                val = 0
                for (n, b) in conds:
                    if n == f.name and bits[(n, b)]:
                        val |= 1 << b
                free = [b for b in range(32) if b not in used]
                if rng.random() < 0.25:
                    b = rng.choice(free)
                    val |= 1 << b        # a bit no field depends on
                    self.tags.add('unrelated-flag-bit' + ('-31' if b == 31 else ''))
                if val:
                    self.tags.add('flags-set')
                v[f.name] = val
                continue
            if f.cond is not None:
                if not bits[f.cond] or f.type == 'true':
                    continue
                self.tags.add('optional-present')
            v[f.name] = self.value(f.type, depth)
        return v


def _tclass(t):
    if t in reftl.BASE or t in ('Bool', 'bytes', 'string'):
        return t
    if reftl.vector_elem(t) is not None:
        return 'vector-of-' + _tclass(reftl.vector_elem(t))
    return 'bare' if reftl.is_bare_name(t) else 'boxed'


def to_json(v):
    if isinstance(v, bytes):
        return {'$b': v.hex()}
    if isinstance(v, dict):
        return {k: to_json(x) for k, x in v.items()}
    if isinstance(v, list):
        return [to_json(x) for x in v]
    return v


def from_json(v):
    if isinstance(v, dict):
        if set(v) == {'$b'}:
            return bytes.fromhex(v['$b'])
        return {k: from_json(x) for k, x in v.items()}
    if isinstance(v, list):
        return [from_json(x) for x in v]
    return v


def bytes_slots(ref, c, v, path=(), owner_boxed=True, out=None):
    """All bytes-typed positions of a value, schema-directed: (path, owner kind, owner constructor, field)."""
    if out is None:
        out = []
    for f in c.fields:
        if f.name not in v or v[f.name] is None:
            continue
        _slots_type(ref, f.type, v[f.name], path + (f.name,), c, f.name, 'boxed-owner' if owner_boxed else 'bare-owner', out)
    return out


def _slots_type(ref, t, x, path, c, fname, kind, out):
    if t == 'bytes':
        if isinstance(x, (bytes, bytearray)):
            out.append((path, kind, c.name, fname))
        return
    e = reftl.vector_elem(t)
    if e is not None:
        if isinstance(x, list):
            for i, y in enumerate(x):
                _slots_type(ref, e, y, path + (i,), c, fname, 'vector-of-bytes' if e == 'bytes' else kind, out)
        return
    if not isinstance(x, dict):
        return
    if reftl.is_bare_name(t):
        cc = ref.by_name.get(t)
        if cc is not None:
            bytes_slots(ref, cc, x, path, False, out)
    else:
        cc = ref.by_name.get(x.get('@type'))
        if cc is not None:
            bytes_slots(ref, cc, x, path, True, out)


def get_path(v, path):
    for k in path:
        v = v[k]
    return v


def set_path(v, path, x):
    for k in path[:-1]:
        v = v[k]
    v[path[-1]] = x


def norm(ref, t, v):
    """Schema-directed comparable form; '@type' is kept only where the schema does not imply it (boxed positions)."""
    if t in ('int', 'long', '#'):
        return ('i', v) if isinstance(v, int) and not isinstance(v, bool) else ('?', repr(v))
    if t in ('int128', 'int256'):
        return ('h', v.lower()) if isinstance(v, str) else ('?', repr(v))
    if t == 'Bool':
        return ('B', v) if isinstance(v, bool) else ('?', repr(v))
    if t == 'bytes':
        return ('b', bytes(v)) if isinstance(v, (bytes, bytearray)) else ('?', repr(v)[:80])
    if t == 'string':
        return ('s', v) if isinstance(v, str) else ('?', repr(v)[:80])
    e = reftl.vector_elem(t)
    if e is not None:
        return ('v', tuple(norm(ref, e, x) for x in v)) if isinstance(v, list) else ('?', repr(v)[:80])
    if not isinstance(v, dict):
        return ('?', repr(v)[:80])
    if reftl.is_bare_name(t):
        c = ref.by_name.get(t)
        return ('o', None, norm_fields(ref, c, v))
    c = ref.by_name.get(v.get('@type'))
    if c is None:
        return ('?', 'unknown @type %r' % (v.get('@type'),))
    return ('o', c.name, norm_fields(ref, c, v))


def norm_fields(ref, c, v):
    out = []
    known = set()
    for f in c.fields:
        known.add(f.name)
        if f.type == 'true' and f.cond is not None:
            continue
        x = v.get(f.name)
        if x is None:
            continue
        out.append((f.name, norm(ref, f.type, x)))
    extra = sorted(k for k in v if k not in known and k != '@type')
    if extra:
        out.append(('<extra>', tuple(extra)))
    return tuple(out)


def first_diff(ref, c, a, b):
    """Type class of the innermost field at which two normalised objects differ (a = expected)."""
    da, db = dict(a), dict(b)
    for f in c.fields:
        x, y = da.get(f.name), db.get(f.name)
        if x == y:
            continue
        return _descend(ref, f.type, x, y, ('opt-' if f.cond else ''))
    return 'extra-keys'


def _descend(ref, t, x, y, pfx=''):
    if x is None or y is None:
        return pfx + _tclass(t) + ('-missing' if y is None else '-unexpected')
    if x[0] == 'o' and y[0] == 'o' and x[1] == y[1]:
        c = ref.by_name.get(x[1]) if x[1] else ref.by_name.get(t)
        if c is not None:
            return first_diff(ref, c, x[2], y[2])
    if x[0] == 'v' and y[0] == 'v':
        e = reftl.vector_elem(t)
        if len(x[1]) == len(y[1]):
            for p, q in zip(x[1], y[1]):
                if p != q:
                    r = _descend(ref, e, p, q)
                    return r if _tclass(e) in ('bare', 'boxed') else pfx + 'vector-of-' + _tclass(e)
        return pfx + 'vector-of-' + _tclass(e)
    if x[0] == 'i' and t == '#' and x[1] >= 2 ** 31:
        return pfx + '#-bit31'
    if x[0] in 'bs' and y[0] == x[0]:
        n = len(x[1]) if x[0] == 'b' else len(x[1].encode())
        return pfx + _tclass(t) + ('-len>=254' if n >= 254 else '')
    return pfx + _tclass(t)


class St:
    pass


class TlWorld(HistoryWorld):
    name = 'TL'
    chunk = 4
    legs = {'quick': [('frames', 3200), ('blockid', 1200)], 'thorough': [('frames', 400000), ('blockid', 40000)]}
    budget = {'quick': 110, 'thorough': 1500}
    real_code = ['pytoniq_core.tl.generator (TlGenerator.generate/from_file, TlRegistrator.register/get_id, split, TlSchemas.serialize/serialize_field/deserialize)',
                 'pytoniq_core.tl.block (BlockId, BlockIdExt)']
    stubs = ['os.listdir seam enumerating the 6 orders of the bundled schema directory', 'reference TL schema parser / encoder / decoder (refmodel/tl.py) as the wire tap and as the remote peer',
             'seeded schema-directed value generator', 'step clock around every deserialize call (backstop)']

    def rule(self):
        return ('frames: run i loads the bundled schemas with the directory listed in order i mod 6 (all 6 orders), then 30..60 frames cross the wire: for a constructor of lite_api.tl / ton_api.tl '
                'whose field types are supported (reported: in-domain count) a seeded well-typed value is drawn (flag bits per optional field, unrelated flag bits, nested bare and polymorphic '
                'boxed objects to depth 4, vectors of 0..40 elements, byte and text strings of 0..5, 252..257, 1000, 65536+ bytes, integers at both range ends). lib->peer: the library serialises, '
                'the tap compares with the reference bytes and decodes them; peer->lib: the reference peer sends, the library parses (value equal, every byte consumed) and re-serialises what it '
                'parsed (bytes equal). Constructors are visited round-robin so every in-domain constructor is sent in every order within the run budget. '
                'blockid: BlockIdExt/BlockId to_bytes/from_bytes/to_dict/from_dict/TL round trips at the integer range ends, equality and use as a dict key. '
                'Non-trivial = a value with a string, vector, set flag, polymorphic object, 253/254 boundary length or a non-default directory order; distinct = distinct (order, constructor set, tag set).')

    def assumptions(self):
        return ['refmodel/tl.py is the trusted base, validated on nine public constructor ids and the two ADNL frames of tests/test_tl.py',
                'carve-outs: bytes/string payloads whose first 4 bytes are a known constructor id (auto-deserialise heuristic); true-typed flag markers (always absent); double/object/function fields '
                '(constructors containing them are out of the domain); tonlib_api.tl constructors; the @type key of objects whose type is a bare constructor; value equality of BlockId (it defines none)',
                'values are given to the serialiser in the form the parser returns (hex str for int128/int256, dict with @type for boxed objects)']

    # ------------------------------------------------------------------ config / state
    def make_config(self, rng, leg, run_index):
        if leg == 'blockid':
            return {'steps': 30}
        return {'order': run_index % 6, 'steps': rng.choice([30, 45, 60]), 'start': (run_index // 6) * 45, 'depth': rng.choice([2, 3, 4])}

    def V(self, ctx, invariant, opkind, klass, msg):
        return ctx.violation(Violation(self.prop, invariant, opkind, klass, msg))

    def new_state(self, ctx):
        st = St()
        st.leg = ctx.leg
        st.k = 0
        if ctx.leg == 'frames':
            order = list(ORDERS[ctx.cfg['order'] % 6])
            listed = []

            def listdir(path):
                listed.append(path)
                return list(order)
            shim = types.SimpleNamespace(listdir=listdir, path=os.path)
            old = lg.os
            lg.os = shim
            try:
                ok, sch = call(lambda: lg.TlGenerator.with_default_schemas().generate())
            finally:
                lg.os = old
            if not listed:
                ctx.count('schema-directory-not-listed-by-generate')   # e.g. a cached schema set: the order seam has nothing to decide then
            if not ok:
                self.V(ctx, 'schema-load-fails', 'generate', 'order-%d' % ctx.cfg['order'], 'loading the bundled schemas raised %r' % (sch,))
                raise AssertionError('unreachable')
            st.schemas = sch
            st.unt = dict((k, set(v)) for k, v in getattr(sch, 'untouchables', {}).items())   # OUR user's configuration, as obtained
            st.ref = ref_schema()
            st.extra_ids = set(k[::-1] for k in sch.id_map.keys())
            if ctx.cfg['order'] != ORDERS.index(tuple(sorted(FILES))):
                ctx.fault('directory-order-%s' % '-'.join(f.split('_')[0] for f in order))
            pass
        return st

    # ------------------------------------------------------------------ generation
    def gen_op(self, st, ctx):
        rng = ctx.rng
        if st.leg == 'blockid':
            ends32 = [0, 1, -1, 2 ** 31 - 1, -2 ** 31, rng.getrandbits(31)]
            ends64 = [None, 0, 1, -1, 2 ** 63 - 1, -2 ** 63, -2 ** 63, rng.getrandbits(63)]
            return {'op': 'blockid', 'wc': rng.choice(ends32), 'shard': rng.choice(ends64), 'seqno': rng.choice([0, 1, 2 ** 31 - 1, rng.getrandbits(31)]),
                    'rh': bytes(rng.getrandbits(8) for _ in range(32)).hex(), 'fh': rng.choice([bytes(32), bytes(rng.getrandbits(8) for _ in range(32))]).hex(),
                    'hash_as': rng.choice(['bytes', 'hex']), 'diff': rng.choice(['wc', 'shard', 'seqno', 'rh', 'fh', 'wc-hash-twin', 'seqno-hash-twin', 'shard-hash-twin'])}
        ref = st.ref
        dom = ref.domain
        r = rng.random()
        if r < 0.15:
            op = self._gen_embedded(st, ctx)
            if op is not None:
                return op
        elif r < 0.3:
            op = self._gen_deep_embedded(st, ctx)
            if op is not None:
                return op
        if r > 0.96:
            return {'op': 'other_user', 'how': rng.choice(['untouchable', 'untouchable', 'auto-off']), 'pick': rng.randrange(1 << 16), 'n': rng.choice([1, 3, 40]),
                    'regenerate': rng.random() < 0.5}
        name = dom[(ctx.cfg['start'] + st.k) % len(dom)] if rng.random() < 0.85 else rng.choice(dom)
        st.k += 1
        g = Gen(rng, ref, st.extra_ids)
        val = g.obj(ref.by_name[name], ctx.cfg['depth'], typed=True)
        return {'op': 'send', 'dir': rng.choice(['lib->peer', 'peer->lib']), 'ctor': name, 'value': to_json(val), 'tags': sorted(g.tags)}

    def _gen_embedded(self, st, ctx):
        """A frame whose bytes field carries another TL object (how ADNL queries, answers and custom messages travel)."""
        rng, ref = ctx.rng, st.ref
        if not hasattr(st, 'carriers'):
            st.carriers = [n for n in ref.domain if any(f.type == 'bytes' for f in ref.by_name[n].fields)]
            st.by_nat = {}
            for n in ref.domain:
                for f in ref.by_name[n].fields:
                    if f.type == '#':
                        st.by_nat.setdefault(f.name, []).append(n)
        if not st.carriers:
            return None
        pref = [n for n in st.carriers if any(f.type == '#' for f in ref.by_name[n].fields)]
        outer = rng.choice(pref) if pref and rng.random() < 0.6 else rng.choice(st.carriers)
        oc = ref.by_name[outer]
        g = Gen(rng, ref, st.extra_ids)
        val = g.obj(oc, 2, typed=True)
        inner = {}
        nats = [f.name for f in oc.fields if f.type == '#']
        for f in oc.fields:
            if f.type != 'bytes' or f.name not in val:
                continue
            cands = [n for nat in nats for n in st.by_nat.get(nat, [])]
            iname = rng.choice(cands) if cands and rng.random() < 0.7 else rng.choice(ref.domain)
            ival = Gen(rng, ref, st.extra_ids).obj(ref.by_name[iname], 2, typed=True)
            inner[f.name] = {'ctor': iname, 'value': to_json(ival)}
        if not inner:
            return None
        return {'op': 'send_embedded', 'ctor': outer, 'value': to_json(val), 'inner': inner}

    def _gen_deep_embedded(self, st, ctx):
        """An object travels inside a bytes field that is NOT a direct field of the frame's own constructor: the field of a bare
        nested object, of a vector element, or an element of (vector bytes).  The library's API takes and returns such an object as a dict."""
        rng, ref = ctx.rng, st.ref
        if not hasattr(st, 'deep_carriers'):
            # constructors that can reach a bytes position below their own fields
            st.deep_carriers = []
            for n in ref.domain:
                c = ref.by_name[n]
                if any(f.type != 'bytes' and ('bytes' in f.type or not (f.type in reftl.BASE or f.type in ('Bool', 'string', 'true'))) for f in c.fields):
                    st.deep_carriers.append(n)
        for _ in range(6):
            outer = rng.choice(st.deep_carriers)
            oc = ref.by_name[outer]
            val = Gen(rng, ref, st.extra_ids).obj(oc, 3, typed=True)
            slots = [sl for sl in bytes_slots(ref, oc, val) if len(sl[0]) > 1]
            if not slots:
                continue
            chosen = rng.sample(slots, min(len(slots), rng.choice([1, 1, 2])))
            out = []
            for path, kind, owner, fname in chosen:
                iname = rng.choice(ref.domain)
                ival = Gen(rng, ref, st.extra_ids).obj(ref.by_name[iname], 1, typed=True)
                out.append({'path': list(path), 'ctor': iname, 'value': to_json(ival)})
            return {'op': 'send_deep_embedded', 'ctor': outer, 'value': to_json(val), 'slots': out}
        return None

    def op_send_deep_embedded(self, st, op, ctx):
        ref, sch = st.ref, st.schemas
        c = ref.by_name.get(op['ctor'])
        if c is None:
            return
        v_ref = from_json(op['value'])
        v_lib = from_json(op['value'])
        valid = {sl[0]: sl for sl in bytes_slots(ref, c, v_ref)}
        done = []
        try:
            for d in op['slots']:
                path = tuple(d['path'])
                if path not in valid or any(path == q for q, _, _, _ in done):
                    continue
                ic = ref.by_name[d['ctor']]
                iv = from_json(d['value'])
                iw = ref.encode(ic.name, iv)
                if len(iw) > 60000:
                    continue
                set_path(v_ref, path, iw)
                # the object as the application holds it: a plain dict, an OrderedDict (json.loads(object_pairs_hook=...)) or the
                # application's own dict subclass - all of them ARE dicts
                obj = dict(iv, **{'@type': ic.name})
                if len(iw) % 3:
                    obj = (collections.OrderedDict if len(iw) % 3 == 1 else _AppDict)(obj)
                    ctx.probe('embedded-object-held-as-a-dict-subclass')
                set_path(v_lib, path, obj)
                done.append((path, ic, iv, iw))
            wire = ref.encode(c.name, v_ref)
        except (reftl.TlModelError, KeyError, TypeError, AttributeError, ValueError, OverflowError, IndexError):
            return
        if not done:
            return
        kinds = sorted(set(valid[p][1] for p, _, _, _ in done))
        for k in kinds:
            ctx.probe('object-embedded-below-the-frame/' + k)
        klass = 'embedded-object/' + kinds[0]
        # 1. the library serialises the dict form to the TL encoding
        ok, lib_wire = call(lambda: sch.serialize(sch.get_by_name(c.name), v_lib))
        ctx.evaluated(1)
        if not ok:
            self.V(ctx, 'serialize-raises', 'serialize', klass, 'serialising %s with an object in a bytes position raised %r' % (c.name, lib_wire))
            return
        if lib_wire != wire:
            self.V(ctx, 'bytes-differ', 'serialize', klass, '%s with an embedded object: library bytes differ from the TL encoding' % (c.name,))
            return
        # 2. parsing returns the same value: the object again (raw bytes only where the library declares the field untouchable)
        status, res, steps = metered(PARSE_BUDGET + 40 * len(wire), sch.deserialize, wire)
        ctx.evaluated(1)
        ctx.tick(steps)
        if status != 'ok':
            self.V(ctx, 'parse-raises' if status == 'raised' else 'parse-no-result', 'deserialize', klass, 'parsing a valid %s frame raised / did not finish: %r' % (c.name, res))
            return
        try:
            val, used = res
        except (TypeError, ValueError):
            self.V(ctx, 'parse-raises', 'deserialize', 'shape', 'deserialize returned %r' % (res,))
            return
        if not isinstance(val, dict) or val.get('@type') != c.name:
            self.V(ctx, 'parse-value-differs', 'deserialize', 'constructor-id', 'a %s frame parsed as %r' % (c.name, type(val)))
            return
        unt = st.unt
        for path, ic, iv, iw in done:
            _, kind, owner, fname = valid[path]
            try:
                got = get_path(val, path)
            except (KeyError, IndexError, TypeError):
                self.V(ctx, 'parse-value-differs', 'deserialize', klass, '%s: position %r is missing from the parsed value' % (c.name, path))
                return
            raw_expected = kind == 'boxed-owner' and fname in unt.get(owner, ())
            if raw_expected:
                okf = isinstance(got, (bytes, bytearray)) and bytes(got) == iw
            else:
                okf = isinstance(got, dict) and got.get('@type') == ic.name and norm(ref, ic.result, got) == norm(ref, ic.result, dict(iv, **{'@type': ic.name}))
            if not okf:
                self.V(ctx, 'parse-value-differs', 'deserialize', 'embedded-object/' + kind, '%s: the %s object sent at %r (%s) came back as %s' % (c.name, ic.name, path, kind, repr(got)[:100]))
                return
            try:
                set_path(val, path, iw)
            except (KeyError, IndexError, TypeError):
                return
        if norm_fields(ref, c, val) != norm_fields(ref, c, v_ref):
            k = first_diff(ref, c, norm_fields(ref, c, v_ref), norm_fields(ref, c, val))
            self.V(ctx, 'parse-value-differs', 'deserialize', 'next-to-embedded-object/' + k, '%s: a field of class %s next to an embedded object differs from the sent value' % (c.name, k))
            return
        if used != len(wire):
            self.V(ctx, 'parse-consumed', 'deserialize', klass, '%s: parser consumed %r of %d bytes' % (c.name, used, len(wire)))

    def op_other_user(self, st, op, ctx):
        """Another user of the same process obtains ITS OWN schema set and configures it (more untouchable fields, or no
        auto-deserialisation at all).  Our user's set - the one it already holds, or a fresh one it asks for afterwards - must
        behave as before: results do not depend on what others did with their objects."""
        ref = st.ref
        ok, other = call(lambda: lg.TlGenerator.with_default_schemas().generate())
        if not ok:
            return
        ctx.fault('another-user-configures-its-own-schema-set/' + op['how'])
        if op['how'] == 'auto-off':
            other._auto_deserialize = False
        else:
            carriers = [n for n in ref.domain if any(f.type == 'bytes' for f in ref.by_name[n].fields)]
            for j in range(op['n']):
                n = carriers[(op['pick'] + 7919 * j) % len(carriers)]
                other.untouchables.setdefault(n, set()).update(f.name for f in ref.by_name[n].fields if f.type == 'bytes')
        if op.get('regenerate'):
            ok, mine = call(lambda: lg.TlGenerator.with_default_schemas().generate())
            if ok:
                st.schemas = mine
                ctx.probe('our-user-asks-for-a-fresh-schema-set-after-another-configured-its-own')

    def op_send_embedded(self, st, op, ctx):
        ref, sch = st.ref, st.schemas
        c = ref.by_name.get(op['ctor'])
        if c is None:
            return
        value = from_json(op['value'])
        inner_vals = {}
        try:
            for fname, d in op['inner'].items():
                ic = ref.by_name[d['ctor']]
                iv = from_json(d['value'])
                iw = ref.encode(ic.name, iv)
                if len(iw) > 60000 or fname not in value:
                    return
                value[fname] = iw
                inner_vals[fname] = (ic, iv, iw)
            wire = ref.encode(c.name, value)
        except (reftl.TlModelError, KeyError, TypeError, AttributeError, ValueError, OverflowError):
            return
        if not inner_vals:
            return
        ctx.probe('object-embedded-in-bytes-field')
        nats = set(f.name for f in c.fields if f.type == '#')
        if any(nats & set(f.name for f in ic.fields if f.type == '#') for ic, _, _ in inner_vals.values()):
            ctx.probe('embedded-object-has-a-flags-field-of-the-same-name')
        status, res, steps = metered(PARSE_BUDGET + 40 * len(wire), sch.deserialize, wire)
        ctx.evaluated(1)
        ctx.tick(steps)
        if status != 'ok':
            self.V(ctx, 'parse-raises' if status == 'raised' else 'parse-no-result', 'deserialize', 'embedded-object', 'parsing a valid %s frame carrying %s raised / did not finish: %r'
                   % (c.name, [ic.name for ic, _, _ in inner_vals.values()], res))
            return
        try:
            val, used = res
        except (TypeError, ValueError):
            self.V(ctx, 'parse-raises', 'deserialize', 'shape', 'deserialize returned %r' % (res,))
            return
        if not isinstance(val, dict) or val.get('@type') != c.name:
            self.V(ctx, 'parse-value-differs', 'deserialize', 'constructor-id', 'a %s frame parsed as %r' % (c.name, type(val)))
            return
        # fields other than the carriers: as sent; carriers: the raw bytes or the object they encode
        exp_rest = dict(value)
        got_rest = dict(val)
        for fname, (ic, iv, iw) in inner_vals.items():
            exp_rest.pop(fname, None)
            got = got_rest.pop(fname, None)
            if fname in st.unt.get(c.name, ()):
                okf = isinstance(got, (bytes, bytearray)) and bytes(got) == iw      # declared untouchable by this user's schema set
            elif isinstance(got, dict):
                okf = got.get('@type') == ic.name and norm(ref, ic.result, got) == norm(ref, ic.result, iv)
            else:
                okf = False                                                           # the object must come back as the object
            if not okf:
                self.V(ctx, 'parse-value-differs', 'deserialize', 'embedded-object', '%s.%s carried a %s object (%d bytes); it came back as %s' % (c.name, fname, ic.name, len(iw), repr(got)[:120]))
                return
        # the remaining fields, compared schema-directed with the carrier fields removed on both sides
        class _C:   # the constructor without its carrier fields
            pass
        cc = _C()
        cc.fields = [f for f in c.fields if f.name not in inner_vals]
        cc.name, cc.result = c.name, c.result
        if norm_fields(ref, cc, got_rest) != norm_fields(ref, cc, exp_rest):
            k = first_diff(ref, cc, norm_fields(ref, cc, exp_rest), norm_fields(ref, cc, got_rest))
            self.V(ctx, 'parse-value-differs', 'deserialize', 'next-to-embedded-object/' + k,
                   '%s: a field of class %s next to an embedded %s object differs from the sent value' % (c.name, k, [ic.name for ic, _, _ in inner_vals.values()]))
            return
        if used != len(wire):
            self.V(ctx, 'parse-consumed', 'deserialize', 'embedded-object', '%s: parser consumed %r of %d bytes' % (c.name, used, len(wire)))

    # ------------------------------------------------------------------ execution
    def apply(self, st, op, ctx):
        getattr(self, 'op_' + op['op'])(st, op, ctx)

    def _klass_of_bytes_diff(self, st, c, value, got):
        ref = st.ref
        want_n = norm(ref, c.result, value)
        try:
            v2, pos = ref.decode(got)
            if pos != len(got):
                raise reftl.TlModelError('trailing bytes')
            return first_diff(ref, c, want_n[2], norm(ref, c.result, v2)[2]) if v2.get('@type') == c.name else 'constructor-id'
        except (reftl.TlModelError, ValueError, KeyError, UnicodeDecodeError):
            pass
        # undecodable: locate the first top-level field whose reference encoding is not where it should be
        pos = 4
        if got[:4] != c.id.to_bytes(4, 'little'):
            return 'constructor-id'
        for f in c.fields:
            if f.cond is not None:
                fl = value.get(f.cond[0]) or 0
                if not (fl >> f.cond[1]) & 1 or f.type == 'true':
                    continue
            enc = ref.encode_type(f.type, value[f.name])
            if got[pos:pos + len(enc)] != enc:
                return ('opt-' if f.cond else '') + _tclass(f.type) + ('#-bit31' if f.type == '#' and value[f.name] >= 2 ** 31 else '')
            pos += len(enc)
        return 'length'

    def op_send(self, st, op, ctx):
        ref = st.ref
        c = ref.by_name.get(op['ctor'])
        if c is None:
            return
        value = from_json(op['value'])
        try:
            wire = ref.encode(c.name, value)
        except (reftl.TlModelError, KeyError, TypeError, AttributeError, ValueError, OverflowError):
            return   # a shrunk value that is no longer well-typed is not a candidate
        for t in op.get('tags', ()):
            ctx.probe(t)
        ctx.tag(c.name)
        ctx.count('frames', 1)
        ctx.count('frame_bytes', len(wire))
        order = 'order-%d' % ctx.cfg['order']
        sch = st.schemas
        lsch = sch.get_by_name(c.name)
        if lsch is None:
            self.V(ctx, 'constructor-unknown', 'get_by_name', order, 'constructor %s of the bundled schemas is not registered' % c.name)
            return
        if lsch.id != c.id.to_bytes(4, 'big'):
            self.V(ctx, 'constructor-id', 'register', c.name if len(c.fields) < 0 else 'crc', 'constructor %s has id %s, TL says %08x' % (c.name, lsch.id.hex(), c.id))
            return
        want = norm(ref, c.result, value)
        if op['dir'] == 'lib->peer':
            ok, got = call(sch.serialize, schema=lsch, data=value) if len(wire) % 2 else call(sch.serialize, lsch, value)
            ctx.evaluated(1)
            if not ok:
                self.V(ctx, 'serialize-raises', 'serialize', self._raise_class(st, c, value, order), 'serialising a well-typed %s raised %r' % (c.name, got))
                return
            ctx.obs(got)
            if got != wire:
                k = self._klass_of_bytes_diff(st, c, value, got)
                self.V(ctx, 'bytes-differ', 'serialize', k, '%s: library bytes (%d) differ from the TL encoding (%d) at offset %d' % (c.name, len(got), len(wire), _first_off(got, wire)))
                return
        # the library parses the frame on the wire
        status, res, steps = metered(PARSE_BUDGET + 40 * len(wire), sch.deserialize, wire)
        ctx.evaluated(1)
        ctx.tick(steps)
        if status == 'budget':
            self.V(ctx, 'parse-no-result', 'deserialize', self._first_suspect(c, value), 'parsing a valid %d-byte %s frame did not finish within %d steps' % (len(wire), c.name, PARSE_BUDGET))
            return
        if status == 'raised':
            self.V(ctx, 'parse-raises', 'deserialize', self._first_suspect(c, value), 'parsing a valid %s frame raised %r' % (c.name, res))
            return
        try:
            val, used = res
        except (TypeError, ValueError):
            self.V(ctx, 'parse-raises', 'deserialize', 'shape', 'deserialize returned %r' % (res,))
            return
        ctx.obs(used)
        if not isinstance(val, dict) or val.get('@type') != c.name:
            self.V(ctx, 'parse-value-differs', 'deserialize', 'constructor-id', 'a %s frame parsed as %r' % (c.name, (val.get('@type') if isinstance(val, dict) else type(val))))
            return
        got_n = norm(ref, c.result, val)
        if got_n != want:
            k = first_diff(ref, c, want[2], got_n[2])
            self.V(ctx, 'parse-value-differs', 'deserialize', k, '%s: parsed value differs from the sent one at a field of class %s' % (c.name, k))
            return
        if used != len(wire):
            self.V(ctx, 'parse-consumed', 'deserialize', self._first_suspect(c, value), '%s: parser consumed %r of %d bytes' % (c.name, used, len(wire)))
            return
        if op['dir'] == 'peer->lib':
            # serialisation inverts parsing: what the library parsed goes back out as the same bytes
            ok, back = call(sch.serialize, lsch, val)
            ctx.evaluated(1)
            if not ok:
                self.V(ctx, 'serialize-raises', 'reserialize', self._raise_class(st, c, value, order), 're-serialising the parsed %s raised %r' % (c.name, back))
                return
            if back != wire:
                k = self._klass_of_bytes_diff(st, c, value, back)
                self.V(ctx, 'bytes-differ', 'reserialize', k, '%s: re-serialised bytes differ from the received frame at offset %d' % (c.name, _first_off(back, wire)))
                return
        # both ends move on: the sender's value must be what it was (it may send it again) and the receiver edits the value it got;
        # a second frame with the same bytes must still parse to the SENT value, whatever was done to the first result
        if op['dir'] == 'lib->peer':
            if norm(ref, c.result, value) != want:
                self.V(ctx, 'argument-changed', 'serialize', self._first_suspect(c, value), 'serialising a %s changed the value the caller passed in' % c.name)
                return
            ok, again = call(sch.serialize, lsch, value)
            if not ok or again != wire:
                self.V(ctx, 'bytes-differ', 'serialize-again', self._first_suspect(c, value), 'serialising the same %s value a second time gave %s' % (c.name, 'other bytes' if ok else repr(again)))
                return
            # the other argument forms of the same call: the constructor given by name, and the bare form (no constructor id) in
            # which the object would travel inside another one
            ok, by_name = call(sch.serialize, c.name, value)
            if not ok or by_name != wire:
                self.V(ctx, 'bytes-differ', 'serialize-by-name', self._first_suspect(c, value), 'serialize(%r, value) gave %s' % (c.name, 'other bytes than serialize(schema, value)' if ok else repr(by_name)))
                return
            ok, bare = call(sch.serialize, lsch, value, False)
            if not ok or bare != wire[4:]:
                self.V(ctx, 'bytes-differ', 'serialize-bare', self._first_suspect(c, value), 'serialize(..., boxed=False) of %s is not the boxed encoding without its constructor id' % c.name)
                return
            status, res, steps = metered(PARSE_BUDGET + 40 * len(wire), sch.deserialize, wire[4:], False, lsch.args)
            ctx.evaluated(3)
            ctx.tick(steps)
            okb = status == 'ok' and isinstance(res, tuple) and len(res) == 2 and isinstance(res[0], dict)
            if not okb or norm(ref, c.result, dict(res[0], **{'@type': c.name})) != want or res[1] != len(wire) - 4:
                self.V(ctx, 'parse-value-differs', 'deserialize-bare', self._first_suspect(c, value), '%s: parsing the bare form (boxed=False, args of the constructor) %s'
                       % (c.name, 'did not return' if not okb else 'gave another value or consumed %r of %d bytes' % (res[1], len(wire) - 4)))
                return
            ctx.probe('bare-and-by-name-argument-forms')
        _scramble(val)
        ctx.probe('receiver-edits-the-parsed-value-then-the-frame-arrives-again')
        status, res, steps = metered(PARSE_BUDGET + 40 * len(wire), sch.deserialize, wire)
        ctx.evaluated(1)
        ctx.tick(steps)
        if status != 'ok' or not isinstance(res, tuple) or len(res) != 2 or not isinstance(res[0], dict) or norm(ref, c.result, res[0]) != want or res[1] != len(wire):
            self.V(ctx, 'parse-value-differs', 'deserialize-again', self._first_suspect(c, value),
                   '%s: after the receiver edited the value it had parsed, the same frame parsed to a different value (%s)' % (c.name, status))

    def _first_suspect(self, c, value):
        cl = sorted(set(_all_classes(_REF, c, value)))
        for k in ('vector-of-int', 'vector-of-long', 'vector-of-int256', 'vector-of-int128', 'vector-of-bytes', 'vector-of-string', 'vector-of-Bool', '#-bit31', 'string'):
            if k in cl:
                return k
        return 'other'

    def _raise_class(self, st, c, value, order):
        # which definition did the library resolve the names in this value to?  (directory-order dependence)
        for name in _all_names(st.ref, c, value):
            l = st.schemas.get_by_name(name)
            r = st.ref.by_name[name]
            if l is None or list(l.args.keys()) != [f.name for f in r.fields]:
                return 'name-resolves-to-other-definition'
        return self._first_suspect(c, value)

    # ---- block ids ----
    def op_blockid(self, st, op, ctx):
        if op.get('diff', '').endswith('-hash-twin'):
            # the neighbouring identifier differs in ONE field whose two values have the same Python hash (hash(-1) == hash(-2);
            # integers that differ by 2^61-1): equal hashes are allowed, equal identifiers they are not
            op = dict(op)
            if op['diff'] == 'wc-hash-twin':
                op['wc'] = -1
            elif op['diff'] == 'seqno-hash-twin':
                op['seqno'] = -1
            else:
                op['shard'] = (op['shard'] or 5) % (2 ** 60)
            ctx.probe('neighbouring-identifier-with-colliding-field-hash')
        rh, fh = bytes.fromhex(op['rh']), bytes.fromhex(op['fh'])
        as_hex = op['hash_as'] == 'hex'
        ok, b = call(BlockIdExt, op['wc'], op['shard'], op['seqno'], op['rh'] if as_hex else rh, op['fh'] if as_hex else fh)
        if not ok:
            self.V(ctx, 'blockid-construct', 'BlockIdExt', 'init', 'BlockIdExt(...) raised %r' % (b,))
            return
        shard = -2 ** 63 if op['shard'] is None else op['shard']
        ctx.evaluated(1)
        want = (op['wc'], shard, op['seqno'], rh, fh)

        def tup(x):
            return (x.workchain, x.shard, x.seqno, bytes(x.root_hash), bytes(x.file_hash))
        if tup(b) != want:
            self.V(ctx, 'blockid-fields', 'BlockIdExt', 'init', 'fields %r != %r' % (tup(b), want))
            return
        ok, raw = call(b.to_bytes)
        if not ok or len(raw) != 80:
            self.V(ctx, 'blockid-bytes', 'to_bytes', 'raises' if not ok else 'length', 'to_bytes -> %r' % (raw,))
            return
        ok, b2 = call(BlockIdExt.from_bytes, raw)
        if not ok or tup(b2) != want:
            self.V(ctx, 'blockid-bytes', 'from_bytes', 'lossy', 'from_bytes(to_bytes(x)) = %r, x = %r' % (b2, b))
            return
        ok, d = call(b.to_dict)
        ok2, b3 = call(BlockIdExt.from_dict, d) if ok else (False, None)
        if not (ok and ok2) or tup(b3) != want:
            self.V(ctx, 'blockid-dict', 'from_dict', 'lossy', 'from_dict(to_dict(x)) = %r, x = %r' % (b3, b))
            return
        ok, eq = call(lambda: b == b2 and b2 == b3 and not (b != b3))
        if not ok or not eq:
            self.V(ctx, 'blockid-eq', '__eq__', 'equal-values', 'equal block ids compare unequal (%r)' % (eq,))
            return
        # dictionary key
        ok, res = call(lambda: {b: 'x'}[b2])
        if not ok or res != 'x':
            self.V(ctx, 'blockid-dict-key', '__hash__', 'raises' if not ok else 'lookup', 'using a BlockIdExt as a dictionary key: %r' % (res,))
            return
        diff = op.get('diff', 'seqno')
        o = {'wc': op['wc'], 'shard': shard, 'seqno': op['seqno'], 'rh': rh, 'fh': fh}
        if diff in ('rh', 'fh'):
            o[diff] = o[diff][:31] + bytes([o[diff][31] ^ 1])
        elif diff == 'seqno':
            o['seqno'] = (op['seqno'] + 1) % 2 ** 31
        elif diff == 'wc':
            o['wc'] = -1 if op['wc'] != -1 else 0
        elif diff == 'wc-hash-twin':
            o['wc'] = -2
        elif diff == 'seqno-hash-twin':
            o['seqno'] = -2
        elif diff == 'shard-hash-twin':
            o['shard'] = shard + 2 ** 61 - 1
        else:
            o['shard'] = shard ^ (1 << 62)
        other = BlockIdExt(o['wc'], o['shard'], o['seqno'], o['rh'], o['fh'])
        ok, eq = call(lambda: other == b or b == other)
        if not ok or eq:
            self.V(ctx, 'blockid-eq', '__eq__', 'differs-in-' + diff, 'block ids differing only in %s compare equal (%r)' % (diff, eq))
            return
        ok, res = call(lambda: len({b: 1, b2: 2, other: 3}))
        if not ok or res != 2:
            self.V(ctx, 'blockid-dict-key', '__hash__', 'distinct-values', 'a dict keyed by two equal and one different block id has %r entries' % (res,))
            return
        ok, s = call(lambda: len({b, b3, other}))
        if not ok or s != 2:
            self.V(ctx, 'blockid-dict-key', '__hash__', 'set', 'a set of two equal and one different block id has %r members' % (s,))
            return
        # plain BlockId
        ok, p = call(BlockId, op['wc'], op['shard'], op['seqno'])
        ok2, p2 = call(lambda: BlockId.from_dict(p.to_dict())) if ok else (False, None)
        if not (ok and ok2) or (p2.workchain, p2.shard, p2.seqno) != (op['wc'], shard, op['seqno']):
            self.V(ctx, 'blockid-dict', 'BlockId.from_dict', 'lossy', 'BlockId dict round trip: %r' % (p2,))
            return
        ok, res = call(lambda: {p: 1}[p])
        if not ok:
            self.V(ctx, 'blockid-dict-key', 'BlockId.__hash__', 'raises', 'using a BlockId as a dictionary key raised %r' % (res,))
            return
        ctx.evaluated(8)
        # the caller goes on working with what the helpers returned (derives the next block from the dict, tags it for TL, edits the
        # dict it passed to from_dict): 'without loss' includes that the identifier it converted FROM still converts to the same
        def edit(dd):
            dd['seqno'] = (dd.get('seqno') or 0) + 1
            dd['workchain'] = 77
            dd['@type'] = 'tonNode.blockIdExt'
            if 'root_hash' in dd:
                dd['root_hash'] = 'ff' * 32
        for name, obj, back, fields in (('BlockIdExt', b, b3, lambda x: tup(x)), ('BlockId', p, p2, lambda x: (x.workchain, x.shard, x.seqno))):
            ok, d1 = call(obj.to_dict)
            if not ok:
                continue
            snap = json.loads(json.dumps(d1, default=repr))
            before = fields(obj)
            call(edit, d1)
            ok, d2 = call(obj.to_dict)
            ctx.probe('caller-edits-the-dict-it-received')
            if fields(obj) != before or not ok or json.loads(json.dumps(d2, default=repr)) != snap:
                self.V(ctx, 'blockid-dict', name + '.to_dict', 'aliases-the-identifier', 'after the caller edited the dict returned by to_dict(), the identifier itself changed: '
                       'fields %r -> %r, to_dict() %r -> %r' % (before, fields(obj), snap, d2))
                return
            # from_dict must not keep the caller's dict either
            ok, d3 = call(obj.to_dict)
            ok2, fresh = call(type(obj).from_dict, d3) if ok else (False, None)
            if ok and ok2:
                f0 = fields(fresh)
                call(edit, d3)
                if fields(fresh) != f0:
                    self.V(ctx, 'blockid-dict', name + '.from_dict', 'aliases-the-dict', 'after the caller edited the dict it had passed to from_dict(), the identifier changed: %r -> %r' % (f0, fields(fresh)))
                    return
        ctx.evaluated(4)
        # the identifier used as a cursor: its (plain) fields are assigned to those of the neighbouring block after it has been
        # converted; every conversion must follow the value it holds NOW
        try:
            b.workchain, b.shard, b.seqno, b.root_hash, b.file_hash = o['wc'], o['shard'], o['seqno'], o['rh'], o['fh']
        except Exception:
            return
        ctx.probe('identifier-advanced-in-place-after-conversion')
        fresh = BlockIdExt(o['wc'], o['shard'], o['seqno'], o['rh'], o['fh'])
        ok, res = call(lambda: (b.to_bytes() == fresh.to_bytes(), b.to_dict() == fresh.to_dict(), tup(BlockIdExt.from_bytes(b.to_bytes())) == tup(fresh),
                                tup(BlockIdExt.from_dict(b.to_dict())) == tup(fresh), b == fresh and hash(b) == hash(fresh)))
        if not ok or not all(res):
            names = ['to_bytes', 'to_dict', 'from_bytes(to_bytes)', 'from_dict(to_dict)', '==/hash']
            which = 'raises' if not ok else [nm for nm, r in zip(names, res) if not r][0]
            self.V(ctx, 'blockid-stale', which if ok else 'conversion', 'after-fields-were-assigned',
                   'after its fields were assigned (cursor use), an identifier converts as if it still held the old block: %s' % (which if ok else repr(res)))

    # ------------------------------------------------------------------ shrinking
    def shrink_op(self, op):
        if op['op'] != 'send':
            return
        v = op['value']
        for cand in _shrink_value(v):
            yield dict(op, value=cand, tags=[])


def _scramble(v, depth=0):
    """The receiver works on what it got: every container it was handed is edited in place."""
    if depth > 12:
        return
    if isinstance(v, dict):
        for k in list(v.keys()):
            x = v[k]
            if isinstance(x, (dict, list)):
                _scramble(x, depth + 1)
            elif isinstance(x, bool):
                v[k] = not x
            elif isinstance(x, int):
                v[k] = x ^ 1
            elif isinstance(x, (bytes, str)):
                v[k] = x[:0]
        v['@edited'] = True
    elif isinstance(v, list):
        for x in v:
            if isinstance(x, (dict, list)):
                _scramble(x, depth + 1)
        v.append({'@edited': True})
        if len(v) > 2:
            del v[0]


def _first_off(a, b):
    for i, (x, y) in enumerate(zip(a, b)):
        if x != y:
            return i
    return min(len(a), len(b))


def _all_classes(ref, c, value):
    for f in c.fields:
        x = value.get(f.name)
        if x is None:
            continue
        yield from _classes_of(ref, f.type, x)


def _classes_of(ref, t, x):
    k = _tclass(t)
    if t == '#' and isinstance(x, int) and x >= 2 ** 31:
        yield '#-bit31'
    yield k
    e = reftl.vector_elem(t)
    if e is not None:
        for y in x:
            yield from _classes_of(ref, e, y)
    elif k == 'bare':
        yield from _all_classes(ref, ref.by_name[t], x)
    elif k == 'boxed' and isinstance(x, dict) and x.get('@type') in ref.by_name:
        yield from _all_classes(ref, ref.by_name[x['@type']], x)


def _all_names(ref, c, value):
    yield c.name
    for f in c.fields:
        x = value.get(f.name)
        if x is None:
            continue
        yield from _names_of(ref, f.type, x)


def _names_of(ref, t, x):
    e = reftl.vector_elem(t)
    if e is not None:
        for y in x:
            yield from _names_of(ref, e, y)
        return
    k = _tclass(t)
    if k == 'bare':
        yield from _all_names(ref, ref.by_name[t], x)
    elif k == 'boxed' and isinstance(x, dict) and x.get('@type') in ref.by_name:
        yield from _all_names(ref, ref.by_name[x['@type']], x)


def _shrink_value(v):
    """Simpler JSON values of the same shape (shorter lists / strings, smaller ints, absent optionals are tried by the encoder guard)."""
    if isinstance(v, dict):
        if set(v) == {'$b'}:
            h = v['$b']
            if len(h) > 16:
                yield {'$b': h[:16]}
            if len(h) > 0:
                yield {'$b': ''}
            return
        for k, x in v.items():
            if k == '@type':
                continue
            for s in _shrink_value(x):
                yield dict(v, **{k: s})
    elif isinstance(v, list):
        if v:
            yield []
            if len(v) > 1:
                yield v[:1]
            for i, x in enumerate(v[:3]):
                for s in _shrink_value(x):
                    yield v[:i] + [s] + v[i + 1:]
    elif isinstance(v, str):
        if len(v) > 8 and not all(ch in '0123456789abcdef' for ch in v):
            yield v[:4]
            yield ''
    elif isinstance(v, bool):
        return
    elif isinstance(v, int):
        if v not in (0, 1):
            yield 0
