"""POOL world (C01, C03, C08): histories over a pool of cells, slices and builders derived from one another.

C01: every construction route vs the RCell reference (hash, depth, ==, dict-key, recomputed hash).
C03: serialise x option set x encoding x entry point through a lossless store, compare recursively.
C08: K interleaved callers over a shared arena; snapshot, argument, repeat and non-interference
     invariants - the library is compared with itself only.
Cell references in ops are ['A'|'P', index]: shared arena or the caller's private list, taken
modulo the list length at execution time.
"""
import base64
import inspect
import sys

from detsim.core import HistoryWorld, Violation, StopRun
from detsim import lib as lib_mod
from refmodel import boc as refboc, hashmap, tlb
from refmodel.rcell import RCell, RCellError, pruned_of, merkle_proof_of, merkle_update_of, library_ref_of
from .common import (call, call_shallow, to01, tvm_bits, lib_cell_from_rcell, rcell_from_lib, struct_diff, Cell, Builder, Slice, bitarray, Address, ExternalAddress, addr_tuple)
from .build import _rbits

from pytoniq_core.boc.hashmap import HashMap

OPTS = [(0, 0, 0), (0, 1, 0), (1, 0, 0), (1, 1, 0), (1, 0, 1), (1, 1, 1)]
BITLENS = [0, 1, 2, 3, 4, 5, 6, 7, 8, 9, 15, 16, 17, 1016, 1017, 1018, 1019, 1020, 1021, 1022, 1023]


def reset_hidden_state():
    """One process = one simulated run: clear mutable default arguments of library functions."""
    for name, mod in list(sys.modules.items()):
        if not name.startswith('pytoniq_core'):
            continue
        for obj in list(vars(mod).values()):
            fns = []
            if inspect.isfunction(obj):
                fns.append(obj)
            elif inspect.isclass(obj) and getattr(obj, '__module__', '').startswith('pytoniq_core'):
                for v in vars(obj).values():
                    f = getattr(v, '__func__', v)
                    if inspect.isfunction(f):
                        fns.append(f)
            for f in fns:
                for d in (f.__defaults__ or ()):
                    if isinstance(d, (dict, list, set)) and d:
                        d.clear()


class Caller:
    def __init__(self):
        self.cells = []     # entries {'lib','twin'}
        self.blobs = []     # (bytes, source entry)
        self.log = []


class St:
    def __init__(self, k):
        self.arena = []
        self.callers = [Caller() for _ in range(k)]
        self.snap = {}      # id(lib cell) -> snapshot
        self.live = []      # all lib cells under snapshot watch (keeps them alive)
        self.step = 0
        self.queue = []

    def entry(self, caller, ref):
        if not isinstance(ref, (list, tuple)) or len(ref) != 2:
            return None
        space, i = ref
        lst = self.arena if space == 'A' or not self.callers else self.callers[caller % len(self.callers)].cells
        if not lst:
            lst = self.arena
        if not lst:
            return None
        return lst[i % len(lst)]


def snapshot(c):
    return (c.hash, to01(c.bits), tuple(id(r) for r in c.refs), tuple(r.hash for r in c.refs), c.type_, c.level_mask.mask)


def _malformed_bags():
    """Single-cell bags (no index, no CRC) whose cell carries the exotic flag and fewer than 8 data bits: the cell is the last
    2 + ceil(bits/8) bytes of the encoding, so its first descriptor byte is found from the end."""
    out = []
    for bits in ('101', '1', '0110101'):
        b = bytearray(refboc.encode([RCell(bits)]))
        b[-3] |= 8
        out.append(bytes(b))
    return out


_MALFORMED_BAGS = _malformed_bags()


class _AppCell(Cell):
    """What an application deriving from Cell looks like (no behaviour added)."""


class PoolWorld(HistoryWorld):
    run_timeout = 60

    def run_timeout_for(self, leg):
        # ordinary runs take well under 0.2 s; the boundary / deep / huge legs build up to 65 537 cells (seconds)
        return 20 if leg in ('main', 'interleave') else 120
    name = 'POOL'
    chunk = 20
    real_code = ['pytoniq_core.boc.cell.Cell (constructor, hashes, order, to_boc, copy, begin_parse, to_builder)',
                 'pytoniq_core.boc.deserialize.Boc', 'pytoniq_core.boc.builder.Builder', 'pytoniq_core.boc.slice.Slice',
                 'pytoniq_core.boc.hashmap.HashMap.parse', 'pytoniq_core.tlb.vm_stack.VmStack.serialize']
    stubs = ['K simulated callers and the scheduler that interleaves them', 'shared cell arena', 'per-cell creation snapshots',
             'RCell twins + reference BoC encoder (import route, C01/C03 oracle)', 'lossless in-memory store for serialised blobs']

    def __init__(self, prop, tier):
        super().__init__(prop, tier)
        q = tier == 'quick'
        self.legs = {
            'C01': [('main', 20000 if q else 600000), ('deep', 8 if q else 80)],
            'C03': [('main', 12000 if q else 400000), ('boundary', 48 if q else 600), ('deep', 4 if q else 24), ('huge', 4 if q else 16)],
            'C08': [('main', 10000 if q else 300000)],
        }[prop]
        self.budget = {'quick': 100, 'thorough': 1500}

    def get_legs(self):
        return self.legs

    def rule(self):
        return {
            'C01': 'Each run = a history creating cells by every route the statement names (Builder.end_cell, Cell(...) direct with TvmBitarray and plain bitarray, '
                   'one_from_boc/from_boc of a reference-encoded BoC under random encoder freedoms, copy, Slice.to_cell after consuming reads, to_builder().end_cell()); '
                   'after every creating step hash, get_hash(0..3), get_depth(0..3), calculate_representation_hash(), == and dict-key collision against the whole pool are '
                   'compared with the RCell reference. Bit lengths forced over every residue mod 8 and the ends 0,1,7,8,1016..1023; leg deep = chains of depth 1022/1023. '
                   'Non-trivial = a run in which an equal-hash pair, a boundary bit length or a deep chain occurred; distinct = distinct (route sequence, probe set). '
                   'Contents are seeded samples; the simulator contributes the route/history dimension only ((M) in DESIGN.md).',
            'C03': 'Each run = a history of [to_boc(option set) -> lossless store -> parse(encoding, entry point)] interleaved with cell creation; all 6 valid option sets x '
                   '{bytes, hex, base64} x {Cell.one_from_boc, Cell.from_boc[0], Slice.one_from_boc, Builder.one_from_boc}; the re-parsed object is compared recursively '
                   '(bits, type, refs) with the model and its root hash with the original. Leg boundary forces 255/256/257 cells and 255/256/65535/65536 payload bytes and '
                   'sharing shapes (diamond, ladder); leg deep = 1023-deep chains; leg huge (thorough) = 65534..65537 cells. '
                   'Non-trivial = a boundary/sharing/exotic probe fired; distinct = distinct (op sequence, probe set).',
            'C08': 'Each run = K=2..4 callers with private builders/slices/cells over a shared arena; the seeded scheduler picks which caller performs its next operation '
                   '(parse, load, skip, to_builder+store, end_cell, copy, to_boc with all option sets, order() with and without argument, hash, ==, dict parse, VmStack.serialize, '
                   'Cell(bits, refs) from TvmBitarray and from aligned/unaligned plain bitarrays). Invariants after every step: I1 every live cell equals its creation snapshot '
                   '(to_boc bytes every 8th step), I2 arguments unchanged, I3 repeated read-only call identical; after the run I4 each caller log equals its solo replay. '
                   'Non-trivial = a run with >= 2 callers actually interleaved; distinct = distinct (caller sequence, op sequence).',
        }[self.prop]

    def assumptions(self):
        if self.prop == 'C08':
            return ['the library is compared with itself (snapshots / solo replay); a wrong-but-stable hash is not a C08 violation',
                    'callers are simulated sequential callers, not OS threads: the library has no locks, threads or I/O to pre-empt',
                    'mutable default arguments of library functions are cleared at the start of each simulated run (one process = one run)']
        return ['refmodel/rcell.py and refmodel/boc.py are the trusted base (validated by refmodel/selftest.py on the main-net block)',
                '(M) fault-free history refinement: no fault is injected', 'Builder.one_from_boc on an exotic root is a carve-out (C03)',
                'operations aborted by the run watchdog are reported as no-result, not as value mismatches']

    # -------------------------------------------------------------------------------
    def make_config(self, rng, leg, run_index):
        if self.prop == 'C08':
            return {'steps': rng.choice([30, 60, 120]), 'callers': rng.choice([2, 2, 3, 4]), 'arena': rng.choice([4, 8, 16]),
                    'enabled': sorted(rng.sample(C08_OPS, rng.randint(5, len(C08_OPS))))}
        if leg == 'deep':
            return {'steps': 6, 'callers': 1, 'arena': 2, 'deep': [1022, 1023][run_index % 2]}
        if leg == 'boundary':
            shapes = ['cells255', 'cells256', 'cells257', 'pay255', 'pay256', 'pay65535', 'pay65536', 'diamond', 'ladder', 'wide-shared', 'exotic', 'two-same-refs', 'proof-next-to-data', 'update-skeleton-vs-full', 'exotic-lookalike', 'empty-chain70', 'empty-chain100', 'empty-chain250', 'empty-chain300']
            return {'steps': 8, 'callers': 1, 'arena': 1, 'shape': shapes[run_index % len(shapes)]}
        if leg == 'huge':
            return {'steps': 5, 'callers': 1, 'arena': 1, 'shape': 'cells%d' % (65534 + run_index % 4)}
        cfg = {'steps': rng.choice([20, 40, 80]), 'callers': 1, 'arena': rng.choice([3, 6, 12]), 'exotic': rng.random() < (0.4 if self.prop == 'C03' else 0.2)}
        if self.prop == 'C01' and run_index % 160 == 11:
            cfg['foreign'] = True
        return cfg

    def new_state(self, ctx):
        reset_hidden_state()
        st = St(ctx.cfg.get('callers', 1))
        st.cfg = ctx.cfg
        st.setup_done = False
        return st

    # ---------------- generation ----------------
    def gen_op(self, st, ctx):
        rng = ctx.rng
        if st.queue:
            return st.queue.pop(0)
        cfg = st.cfg
        if not st.setup_done:
            st.setup_done = True
            self._gen_setup(st, rng, cfg)
            if st.queue:
                return st.queue.pop(0)
        if self.prop == 'C08':
            return self._gen_c08(st, rng, cfg)
        if self.prop == 'C01':
            return self._gen_c01(st, rng, cfg)
        return self._gen_c03(st, rng, cfg)

    def _gen_setup(self, st, rng, cfg):
        q = st.queue
        shape = cfg.get('shape')
        if cfg.get('deep'):
            q.append({'op': 'arena_chain', 'n': cfg['deep'], 'caller': -1})
            if cfg['deep'] == 1023 and self.prop in ('C01', 'C08'):
                # one level more is not a cell any longer: attempted (through the builder or the constructor), then life goes on
                q.append({'op': ['build', 'direct'][rng.randrange(2)], 'bits': _rbits(rng, rng.choice([0, 5, 8])), 'refs': [['A', 0]], 'plain': False, 'caller': 0})
            return
        if shape:
            q.append({'op': 'arena_shape', 'shape': shape, 'seed': rng.getrandbits(32), 'caller': -1})
            return
        n = cfg.get('arena', 4)
        for i in range(n):
            nb = rng.choice(BITLENS + [rng.randint(0, 1023)] * 6)
            refs = [rng.randrange(1 << 16) for _ in range(rng.choice([0, 0, 1, 2, 2, 3, 4]))] if i else []
            q.append({'op': 'arena_cell', 'bits': _rbits(rng, nb), 'refs': refs, 'caller': -1})
        if cfg.get('exotic') or self.prop == 'C08':
            for _ in range(rng.randint(1, 3)):
                q.append({'op': 'arena_exotic', 'kind': rng.choice(['pruned', 'proof', 'update', 'library', 'skeleton-pair', 'skeleton-pair', 'lookalike', 'lookalike-separate', 'nested3']), 'c': rng.randrange(1 << 16),
                          'd': rng.randrange(1 << 16), 'caller': -1})

    def _ref(self, rng):
        return [rng.choice(['A', 'P', 'P']), rng.randrange(1 << 16)]

    def _gen_create(self, rng, caller=0):
        r = rng.random()
        nb = rng.choice(BITLENS + [rng.randint(0, 1023)] * 8)
        refs = [self._ref(rng) for _ in range(rng.choice([0, 0, 1, 1, 2, 3, 4]))]
        if r < 0.18:
            return {'op': 'build', 'bits': _rbits(rng, nb), 'refs': refs, 'caller': caller}
        if r < 0.25:
            return {'op': 'build_more', 'slice': rng.randrange(1, 100) if rng.random() < 0.4 else 0, 'replace': self._ref(rng) if rng.random() < 0.3 else None, 'bits': _rbits(rng, rng.choice([0, 1, 3, 8, 13, 64])), 'ref': self._ref(rng) if rng.random() < 0.3 else None,
                    'fresh': rng.random() < 0.3, 'caller': caller}
        if r < 0.40:
            return {'op': 'direct', 'bits': _rbits(rng, nb), 'refs': refs, 'plain': rng.random() < 0.5, 'caller': caller}
        if r < 0.52:
            return {'op': 'copy', 'c': self._ref(rng), 'caller': caller}
        if r < 0.72:
            f = rng.choice(OPTS)
            return {'op': 'import', 'sub': rng.random() < 0.25, 'c': self._ref(rng), 'idx': f[0], 'crc': f[1], 'cache': f[2], 'size_extra': rng.choice([0, 0, 1]), 'off_extra': rng.choice([0, 0, 2]),
                    'shuffle': rng.getrandbits(16), 'entry': rng.choice(['one', 'list']), 'caller': caller}
        if r < 0.86:
            return {'op': 'slice_to_cell', 'c': self._ref(rng), 'skip_bits': rng.choice([0, 0, 1, 7, 8, rng.randint(0, 64)]), 'skip_refs': rng.choice([0, 0, 1, 2, 4]), 'how': rng.choice(['to_cell', 'to_cell', 'to_builder', 'store_slice', 'copy_to_cell']), 'after_bits': rng.choice([0, 0, 1, 8, 33]), 'after_refs': rng.choice([0, 0, 1]), 'caller': caller,
                    'via': rng.choice(['begin_parse', 'begin_parse', 'from_cell', 'builder_to_slice'])}
        return {'op': 'via_builder', 'c': self._ref(rng), 'more_bits': _rbits(rng, rng.choice([0, 0, 1, 8])), 'more_ref': self._ref(rng) if rng.random() < 0.4 else None, 'caller': caller}

    def _gen_c01(self, st, rng, cfg):
        if cfg.get('foreign') and st.step == cfg['steps'] - 2:
            return {'op': 'foreign_process', 'hashseed': rng.randrange(1, 4000), 'caller': 0}
        if cfg.get('deep'):
            return self._gen_create(rng) if rng.random() < 0.7 else {'op': 'copy', 'c': ['A', 0], 'caller': 0}
        return self._gen_create(rng)

    def _gen_c03(self, st, rng, cfg):
        c = st.callers[0]
        r = rng.random()
        big = bool(cfg.get('shape') or cfg.get('deep'))
        if big:
            # forced shapes are expensive: strictly alternate serialise / parse-the-newest so that every serialisation is parsed
            nparsed = getattr(c, 'nparsed', 0)
            if len(c.blobs) <= nparsed:
                f = OPTS[(st.step + rng.randrange(6)) % 6]
                return {'op': 'to_boc', 'c': ['A', 0], 'idx': f[0], 'crc': f[1], 'cache': f[2], 'caller': 0}
            c.nparsed = nparsed + 1
            return {'op': 'parse', 'blob': len(c.blobs) - 1, 'enc': rng.choice(['bytes', 'hex', 'b64']), 'entry': rng.choice(['cell_one', 'cell_list', 'slice', 'builder']), 'caller': 0}
        if r < 0.3:
            return self._gen_create(rng)
        if r < 0.6 or not c.blobs:
            f = rng.choice(OPTS)
            return {'op': 'to_boc', 'c': self._ref(rng), 'idx': f[0], 'crc': f[1], 'cache': f[2], 'caller': 0}
        return {'op': 'parse', 'blob': rng.randrange(1 << 16), 'enc': rng.choice(['bytes', 'hex', 'HEX', 'b64']), 'entry': rng.choice(['cell_one', 'cell_list', 'slice', 'builder']), 'caller': 0}

    def _gen_c08(self, st, rng, cfg):
        k = rng.randrange(cfg['callers'])
        kind = rng.choice(cfg['enabled'])
        ref = self._ref(rng)
        if kind == 'create':
            return self._gen_create(rng, k)
        if kind == 'to_boc':
            f = rng.choice(OPTS)
            return {'op': 'to_boc', 'c': ref, 'idx': f[0], 'crc': f[1], 'cache': f[2], 'caller': k}
        if kind == 'order':
            return {'op': 'order', 'c': ref, 'arg': rng.choice(['none', 'none', 'empty', 'shared']), 'caller': k,
                    'then': rng.choice(['', '', 'order_other_into_it', 'order_other_into_it', 'popitem', 'clear']), 'c2': self._ref(rng)}
        if kind == 'hash':
            return {'op': 'hash', 'c': ref, 'caller': k}
        if kind == 'eq':
            return {'op': 'eq', 'a': ref, 'b': self._ref(rng), 'caller': k}
        if kind == 'parse_load':
            return {'op': 'parse_load', 'c': ref, 'n': rng.choice([0, 1, 8, 64, 1023, rng.randint(0, 200)]), 'refs': rng.choice([0, 1, 2]), 'how': rng.choice(['load_bits', 'skip_bits', 'load_uint', 'load_bytes']),
                    'route': rng.choice(['begin_parse', 'begin_parse', 'from_cell', 'to_slice', 'copy', 'from_cell_copy', 'via_builder', 'slice_to_builder']), 'caller': k}
        if kind == 'builder_store':
            return {'op': 'builder_store', 'c': ref, 'bits': _rbits(rng, rng.choice([1, 8, 100])), 'ref': self._ref(rng), 'caller': k}
        if kind == 'from_builder':
            return {'op': 'from_builder', 'bits': _rbits(rng, rng.choice([0, 5, 64])), 'refs': [self._ref(rng) for _ in range(rng.choice([0, 1, 2]))], 'more': _rbits(rng, 9), 'caller': k}
        if kind == 'parse_dict':
            return {'op': 'parse_dict', 'c': ref, 'n': rng.choice([1, 2, 8, 16]), 'caller': k}
        if kind == 'mk_dict':
            n = rng.choice([2, 8, 16])
            return {'op': 'mk_dict', 'n': n, 'm': sorted([rng.getrandbits(n), rng.getrandbits(8)] for _ in range(rng.randint(1, 4))), 'caller': k}
        if kind == 'vm':
            return {'op': 'vm_serialize', 'items': _vm_items(rng, 2), 'parse': rng.random() < 0.6, 'consume': rng.choice([1, 8, 1023]), 'caller': k}
        if kind == 'parse_blob':
            return {'op': 'parse', 'blob': rng.randrange(1 << 16), 'enc': rng.choice(['bytes', 'hex', 'b64']), 'entry': rng.choice(['cell_one', 'cell_list', 'slice', 'builder']), 'caller': k}
        if kind == 'repr':
            return {'op': 'repr', 'c': ref, 'caller': k}
        if kind == 'tlb_parse':
            return {'op': 'tlb_parse', 'c': ref, 'what': rng.choice(['message', 'account', 'stateinit']), 'caller': k}
        if kind == 'tlb_wellformed':
            # a well-formed message / account / state-init built by the reference model joins the caller's cells and is parsed
            # (twice), its fields are the observation; messages are serialised again from the parsed value
            return {'op': 'tlb_wellformed', 'what': rng.choice(['message', 'message', 'account', 'stateinit', 'shard_account']), 'seed': rng.getrandbits(32), 'again': rng.random() < 0.5, 'caller': k}
        raise AssertionError(kind)

    # ---------------- execution ----------------
    def apply(self, st, op, ctx):
        st.step += 1
        k = op.get('caller', 0)
        if k >= len(st.callers):
            k = k % len(st.callers)
        fn = getattr(self, 'op_' + op['op'])
        obs = fn(st, op, ctx, k)
        if k >= 0:
            st.callers[k].log.append([op['op'], obs])
            ctx.obs(obs)
            ctx.kinds[-1] = '%s%d' % (op['op'], k) if self.prop == 'C08' else op['op']
        if self.prop == 'C08':
            self._check_snapshots(st, op, ctx)

    def V(self, ctx, invariant, opkind, klass, msg):
        return ctx.violation(Violation(self.prop, invariant, opkind, klass, msg))

    def _register(self, st, lst, libcell, twin, ctx, route):
        e = {'lib': libcell, 'twin': twin}
        lst.append(e)
        if self.prop == 'C08':
            st.snap[id(libcell)] = snapshot(libcell)
            st.live.append(libcell)
        elif self.prop == 'C01' and twin is not None and not twin.special:
            self._check_c01(st, e, ctx, route)
        return e

    # --- setup ops (caller -1) ---
    def op_arena_cell(self, st, op, ctx, k):
        refs = [st.arena[r % len(st.arena)] for r in op['refs']] if st.arena else []
        try:
            twin = RCell(op['bits'], [e['twin'] for e in refs])
        except RCellError:
            return None
        c = Cell(tvm_bits(op['bits']), [e['lib'] for e in refs], -1)
        self._register(st, st.arena, c, twin, ctx, 'direct')

    def op_arena_exotic(self, st, op, ctx, k):
        if not st.arena:
            return
        a = st.arena[op['c'] % len(st.arena)]['twin']
        b = st.arena[op['d'] % len(st.arena)]['twin']
        kind = op['kind']
        try:
            if kind == 'pruned':
                # an ordinary cell with a pruned child, wrapped in a merkle proof so that the root has level 0
                if a.mask:
                    return
                twin = merkle_proof_of(RCell('1010', (pruned_of(a, 1), b) if b.mask == 0 else (pruned_of(a, 1),)))
            elif kind == 'skeleton-pair':
                # a cell next to its own pruned skeleton: both have the same level-0 hash but are different cells
                if not a.refs or a.refs[0].mask or a.special:
                    return
                skel = RCell(a.bits, (pruned_of(a.refs[0], 1),) + tuple(a.refs[1:]))
                twin = RCell('11', (merkle_proof_of(skel), a))
                ctx.probe('cell-next-to-its-pruned-skeleton')
            elif kind in ('lookalike', 'lookalike-separate'):
                # an exotic leaf and an ordinary leaf holding the very same data bits are different cells
                if op['c'] % 2 and a.mask == 0:
                    ex = pruned_of(a, 1)
                    exroot = merkle_proof_of(RCell('10', (ex,)))
                else:
                    ex = library_ref_of(a.hash)
                    exroot = RCell('10', (ex,))
                plain = RCell(ex.bits)
                ctx.probe('exotic-leaf-and-ordinary-leaf-with-equal-bits')
                if kind == 'lookalike':
                    twin = RCell('0', (exroot, plain) if op['d'] % 2 else (plain, exroot))
                else:
                    # in separate bags: the ordinary twin joins the pool on its own
                    ok2, c2 = call(lib_cell_from_rcell, plain)
                    if ok2:
                        self._register(st, st.arena, c2, plain, ctx, 'exotic-lookalike')
                    twin = exroot
            elif kind == 'nested3':
                # three Merkle levels: pruned branches of mask 0b100, 0b101, 0b110 (gaps) and 0b111 under one cell
                if a.mask or b.mask:
                    return
                ps = [pruned_of(RCell('1', (pruned_of(a, 2),)), 3), pruned_of(RCell('0', (pruned_of(b, 1),)), 3), pruned_of(a, 3),
                      pruned_of(RCell('', (pruned_of(pruned_of(b, 1), 2),)), 3)]
                ps = ps[op['c'] % 4:] + ps[:op['c'] % 4]
                z = RCell('0110', ps[:(1, 2, 4)[op['d'] % 3]])
                twin = merkle_proof_of(RCell('10', (merkle_proof_of(RCell('1', (merkle_proof_of(z),))),)))
                ctx.probe('three-merkle-levels-gapped-pruned-masks')
            elif kind == 'proof':
                twin = merkle_proof_of(a)
            elif kind == 'update':
                twin = merkle_update_of(a, b)
            else:
                twin = RCell('0', (library_ref_of(a.hash),))
        except RCellError:
            return
        ok, c = call(lib_cell_from_rcell, twin)
        if not ok:
            ctx.count('carve-out:spec-valid-exotic-cell-refused-by-constructor')   # C02's subject, not a round trip
            return
        ctx.probe('exotic-cells-in-pool')
        self._register(st, st.arena, c, twin, ctx, 'exotic')
        if kind == 'pruned' and self.prop != 'C08':
            # the ordinary level-1 cell under the proof joins the pool too (its hash is the hash at ITS level)
            ctx.probe('ordinary-cell-of-level-1')
            self._register(st, st.arena, c.refs[0], twin.refs[0], ctx, 'exotic-child')

    def op_arena_chain(self, st, op, ctx, k):
        cur_l = Builder().store_uint(5, 3).end_cell()
        cur_m = RCell('101')
        for i in range(op['n']):
            bits = '1' if i % 2 else ''
            try:
                m = RCell(bits, (cur_m,))
            except RCellError:
                break
            ok, c = call(lambda: Builder().store_bits(bits).store_ref(cur_l).end_cell())
            if not ok:
                break
            cur_l, cur_m = c, m
        ctx.probe('deep-chain-%d' % cur_m.depth)
        self._register(st, st.arena, cur_l, cur_m, ctx, 'build')

    def op_arena_shape(self, st, op, ctx, k):
        import random
        rng = random.Random(op['seed'])
        twin = make_shape(op['shape'], rng)
        c = lib_cell_from_rcell(twin)
        ctx.probe('shape-' + op['shape'])
        self._register(st, st.arena, c, twin, ctx, 'direct')

    # --- creation routes ---
    def _resolve_refs(self, st, k, refs):
        out = []
        for r in refs:
            e = st.entry(k, r)
            if e is not None and e['twin'] is not None:
                out.append(e)
        return out

    def op_build(self, st, op, ctx, k):
        refs = self._resolve_refs(st, k, op['refs'])
        try:
            twin = RCell(op['bits'], [e['twin'] for e in refs])
        except RCellError:
            # not a cell (one level too deep): the library is asked all the same - a REFUSED construction is an event in the history
            # like any other (whether it refuses is C07's subject); whatever it does, the cells made afterwards are ordinary ones
            def mk_refused():
                b = Builder().store_bits(op['bits'])
                for e in refs:
                    b.store_ref(e['lib'])
                return b.end_cell()
            call_shallow(mk_refused)
            ctx.fault('construction-of-a-non-cell-attempted')
            return 'model-refuses'
        def mk():
            b = Builder().store_bits(op['bits'])
            for e in refs:
                b.store_ref(e['lib'])
            return b.end_cell()
        ok, c = call(mk)
        if not ok:
            return 'raised:' + type(c).__name__
        self._register(st, st.callers[k].cells, c, twin, ctx, 'build')
        return c.hash.hex()

    def op_build_more(self, st, op, ctx, k):
        """A builder that lives across operations: end_cell, keep writing, end_cell again."""
        cal = st.callers[k]
        pb = getattr(cal, 'pbuilder', None)
        if pb is None or op.get('fresh'):
            pb = cal.pbuilder = {'lib': Builder(), 'bits': '', 'refs': []}
        if len(pb['bits']) + len(op['bits']) > 1023:
            pb = cal.pbuilder = {'lib': Builder(), 'bits': '', 'refs': []}
        e = st.entry(k, op['ref']) if op.get('ref') else None
        if e is not None and (e['twin'] is None or len(pb['refs']) >= 4):
            e = None
        try:
            twin = RCell(pb['bits'] + op['bits'], [x['twin'] for x in pb['refs']] + ([e['twin']] if e else []))
        except RCellError:
            return 'model-refuses'
        def mk():
            pb['lib'].store_bits(op['bits'])
            if e:
                pb['lib'].store_ref(e['lib'])
            return pb['lib'].end_cell()
        ok, c = call(mk)
        if not ok:
            cal.pbuilder = None
            return 'raised:' + type(c).__name__
        pb['bits'] += op['bits']
        if e:
            pb['refs'].append(e)
        ctx.probe('builder-reused-after-end_cell')
        self._register(st, cal.cells, c, twin, ctx, 'build_more')
        if op.get('slice') and self.prop == 'C08' and len(pb['bits']) < 1000:
            # a slice is taken from the builder (to_slice), read from, and the builder is written to: two objects derived from one
            # another, each going its own way.  What the slice still holds and what the builder holds must be what each did itself
            def both():
                sl = pb['lib'].to_slice()
                nb_read = min(op['slice'] % 5, len(pb['bits']))
                if nb_read:
                    sl.load_bits(nb_read)
                took = 0
                if pb['refs'] and op['slice'] % 2:
                    sl.load_ref()
                    took = 1
                pb['lib'].store_bits('10')
                extra = None
                if e is not None and len(pb['refs']) < 4:
                    pb['lib'].store_ref(e['lib'])
                    extra = e
                return sl, nb_read, took, extra
            ok3, r3 = call(both)
            if ok3:
                sl, nb_read, took, extra = r3
                want_bits, want_refs = pb['bits'][nb_read:], len(pb['refs']) - took
                pb['bits'] += '10'
                if extra is not None:
                    pb['refs'].append(extra)
                ctx.probe('slice-taken-from-a-builder-that-is-written-to-afterwards')
                if to01(sl.bits) != want_bits or sl.remaining_refs != want_refs:
                    self.V(ctx, 'derived-object-not-isolated', 'to_slice', 'slice-sees-later-stores-of-the-builder',
                           'a slice taken with to_slice() changed when its builder was written to afterwards (%d bits / %d refs left, expected %d / %d)'
                           % (len(sl.bits), sl.remaining_refs, len(want_bits), want_refs))
                elif to01(pb['lib'].bits) != pb['bits'] or len(pb['lib'].refs) != len(pb['refs']):
                    self.V(ctx, 'derived-object-not-isolated', 'to_slice', 'builder-loses-what-the-slice-read',
                           'reading from a slice taken with to_slice() changed the builder (%d bits held, %d stored)' % (len(pb['lib'].bits), len(pb['bits'])))
            else:
                cal.pbuilder = None
                return c.hash.hex()
        if op.get('replace') and (pb['bits'] or pb['refs']):
            # the builder's (public, settable) content is replaced by other content of the SAME size, and it is finished again: the
            # cell handed out now holds the new content, the one handed out before still the old
            nb = ''.join('1' if ch == '0' else '0' for ch in pb['bits'])
            alt = st.entry(k, op['replace'])
            nrefs = list(pb['refs'])
            if nrefs and alt is not None and alt['twin'] is not None:
                nrefs[0] = alt
            try:
                twin2 = RCell(nb, [x['twin'] for x in nrefs])
            except RCellError:
                return c.hash.hex()

            def again():
                pb['lib'].bits = tvm_bits(nb)
                if nrefs:
                    pb['lib'].refs = [x['lib'] for x in nrefs]
                return pb['lib'].end_cell()
            ok2, c2 = call(again)
            if ok2:
                pb['bits'], pb['refs'] = nb, nrefs
                ctx.probe('builder-content-replaced-by-content-of-the-same-size')
                if self.prop == 'C08' and (to01(c2.bits) != nb or [id(r) for r in c2.refs] != [id(x['lib']) for x in nrefs]):
                    self.V(ctx, 'result-depends-on-earlier-call', 'end_cell', 'after-an-earlier-end_cell-of-the-same-builder',
                           'end_cell() after the builder\'s content was replaced returned a cell with the OLD content (it would not, had end_cell() not been called before)')
                self._register(st, cal.cells, c2, twin2, ctx, 'build_more_replaced')
            else:
                cal.pbuilder = None
        return c.hash.hex()

    def op_direct(self, st, op, ctx, k):
        refs = self._resolve_refs(st, k, op['refs'])
        try:
            twin = RCell(op['bits'], [e['twin'] for e in refs])
        except RCellError:
            call_shallow(Cell, tvm_bits(op['bits']), [e['lib'] for e in refs], -1)
            ctx.fault('construction-of-a-non-cell-attempted')
            return 'model-refuses'
        arg_bits = bitarray(op['bits']) if op.get('plain') else tvm_bits(op['bits'])
        arg_refs = [e['lib'] for e in refs]
        keep = list(arg_refs)
        ok, c = call(Cell, arg_bits, arg_refs, -1)
        if self.prop == 'C08':
            if to01(arg_bits) != op['bits']:
                self.V(ctx, 'argument-mutated', 'Cell()', 'plain-bitarray-' + ('unaligned' if len(op['bits']) % 8 else 'aligned') if op.get('plain') else 'tvm-bitarray',
                       'Cell(bits, refs) changed the caller\'s bit array from %d to %d bits' % (len(op['bits']), len(arg_bits)))
            if len(arg_refs) != len(keep) or any(a is not b for a, b in zip(arg_refs, keep)):
                self.V(ctx, 'argument-mutated', 'Cell()', 'refs-list', 'Cell(bits, refs) changed the caller\'s refs list')
        if not ok:
            return 'raised:' + type(c).__name__
        if op.get('plain'):
            ctx.probe('cell-from-plain-bitarray-' + ('unaligned' if len(op['bits']) % 8 else 'aligned'))
        self._register(st, st.callers[k].cells, c, twin, ctx, 'direct-plain' if op.get('plain') else 'direct')
        return c.hash.hex()

    def op_copy(self, st, op, ctx, k):
        e = st.entry(k, op['c'])
        if e is None:
            return None
        ok, c = call(e['lib'].copy)
        if not ok:
            return 'raised:' + type(c).__name__
        self._register(st, st.callers[k].cells, c, e['twin'], ctx, 'copy')
        return c.hash.hex()

    def op_import(self, st, op, ctx, k):
        e = st.entry(k, op['c'])
        if e is None or e['twin'] is None:
            return None
        import random
        twin = e['twin']
        rng = random.Random(op['shuffle'])
        order = refboc.random_topo_order([twin], rng)
        # the root must stay first only for legacy magics; generic form can root anywhere
        n = len(order)
        size = min(4, refboc.min_bytes(n) + op.get('size_extra', 0))
        kw = dict(has_idx=bool(op['idx']), has_crc=bool(op['crc']), has_cache_bits=bool(op['cache']), size=size, order=order)
        data = refboc.encode([twin], **kw)
        if op.get('off_extra'):
            try:
                data = refboc.encode([twin], off_bytes=min(8, refboc.min_bytes(len(data)) + op['off_extra']), **kw)
            except refboc.BocFormatError:
                pass
        # an application may parse into its own subclass of Cell (from_boc / one_from_boc are classmethods building cls(...)): such a
        # cell is a cell - same hash, equal to and colliding with the plain cells of the same content
        klass = _AppCell if op.get('sub') else Cell
        if op.get('sub'):
            ctx.probe('cell-parsed-into-a-subclass-of-Cell')
        if op['entry'] == 'one':
            ok, c = call(klass.one_from_boc, data)
        else:
            ok, c = call(lambda: klass.from_boc(data)[0])
        if not ok:
            if self.prop != 'C08':
                # C05 decides foreign encodings; here an import that fails simply creates nothing
                ctx.count('import-refused')
            return 'raised:' + type(c).__name__
        self._register(st, st.callers[k].cells, c, twin, ctx, 'from_boc')
        return c.hash.hex()

    def op_foreign_process(self, st, op, ctx, k):
        """Cells that were built in ANOTHER interpreter process (a worker, a job queue) and handed over by pickle: that process salts
        str/bytes hashing differently (its own PYTHONHASHSEED).  They are the same cells: equal to, and colliding as dictionary keys
        with, the ones built here."""
        import pickle
        import subprocess
        pool = [e for e in (st.callers[k].cells + st.arena) if e['twin'] is not None and not e['twin'].special][:6]
        if not pool:
            return None
        bocs = [refboc.encode([e['twin']]).hex() for e in pool]
        code = ('import sys, pickle; sys.path.insert(0, %r); from pytoniq_core.boc.cell import Cell; '
                'cs = [Cell.one_from_boc(h) for h in %r]; [hash(c) for c in cs]; sys.stdout.write(pickle.dumps(cs).hex())' % (lib_mod.REPO, bocs))
        env = dict(__import__('os').environ, PYTHONHASHSEED=str(op['hashseed']), PYTHONDONTWRITEBYTECODE='1')
        p = subprocess.run([sys.executable, '-c', code], capture_output=True, text=True, env=env, timeout=120)
        if p.returncode != 0:
            return 'child-failed'
        ok, remote = call(lambda: pickle.loads(bytes.fromhex(p.stdout)))
        if not ok:
            return 'unpickle-raised:' + type(remote).__name__      # pickling support is not part of the statement
        ctx.probe('cells-received-from-another-interpreter-process')
        for e, r in zip(pool, remote):
            loc = e['lib']
            okc, res = call(lambda: (r.hash == loc.hash, r == loc and loc == r, len({loc: 1, r: 2}), {loc: 1}.get(r), r in {loc}))
            if not okc or res != (True, True, 1, 1, True):
                self.V(ctx, 'equality', 'pickled-from-another-process', 'equal-hashes',
                       'a cell received from another interpreter process (PYTHONHASHSEED=%d) and the equal cell built here: same hash %r, ==: %r, dict entries: %r, lookup: %r, in set: %r'
                       % ((op['hashseed'],) + (tuple(res) if okc else (res,) * 5)))
                return 'differs'
        return 'ok'

    def op_slice_to_cell(self, st, op, ctx, k):
        e = st.entry(k, op['c'])
        if e is None or e['twin'] is None or e['twin'].special:
            return None
        t = e['twin']
        sb = min(op['skip_bits'], len(t.bits))
        sr = min(op['skip_refs'], len(t.refs))
        twin = RCell(t.bits[sb:], t.refs[sr:])
        def mk():
            via = op.get('via', 'begin_parse')
            if via == 'from_cell':
                s = Slice.from_cell(e['lib'])
            elif via == 'builder_to_slice':
                s = e['lib'].to_builder().to_slice()
            else:
                s = e['lib'].begin_parse()
            if sb:
                s.skip_bits(sb)
            for _ in range(sr):
                s.load_ref()
            how = op.get('how', 'to_cell')
            if how == 'to_builder':
                c = s.to_builder().end_cell()
            elif how == 'store_slice':
                c = Builder().store_slice(s).end_cell()
            elif how == 'copy_to_cell':
                c = s.copy().to_cell()
            else:
                c = s.to_cell()
            if sr == len(t.refs) and sr:
                ctx.probe('slice-converted-after-all-its-references-were-read')
            # the slice stays in use after the conversion
            ab = min(op.get('after_bits', 0), len(twin.bits))
            if ab:
                s.load_bits(ab)
            for _ in range(min(op.get('after_refs', 0), len(twin.refs))):
                s.load_ref()
            if ab or (op.get('after_refs') and twin.refs):
                ctx.probe('slice-consumed-further-after-to_cell')
            return c
        ok, c = call(mk)
        if not ok:
            return 'raised:' + type(c).__name__
        self._register(st, st.callers[k].cells, c, twin, ctx, 'slice_' + op.get('how', 'to_cell'))
        return c.hash.hex()

    def op_via_builder(self, st, op, ctx, k):
        e = st.entry(k, op['c'])
        if e is None or e['twin'] is None or e['twin'].special:
            return None
        t = e['twin']
        twin = t
        more_bits = op.get('more_bits') or ''
        e2 = st.entry(k, op['more_ref']) if op.get('more_ref') else None
        if e2 is not None and e2['twin'] is None:
            e2 = None
        if more_bits or e2:
            # the derived builder keeps being written to before it is finished
            try:
                twin = RCell(t.bits + more_bits, list(t.refs) + ([e2['twin']] if e2 else []))
            except RCellError:
                twin, more_bits, e2 = t, '', None
        def mk():
            b = e['lib'].to_builder()
            if more_bits:
                b.store_bits(more_bits)
            if e2:
                b.store_ref(e2['lib'])
            return b.end_cell()
        ok, c = call(mk)
        if not ok:
            return 'raised:' + type(c).__name__
        if more_bits or e2:
            ctx.probe('derived-builder-written-to')
        self._register(st, st.callers[k].cells, c, twin, ctx, 'via_builder')
        return c.hash.hex()

    # --- C01 oracle ---
    def _check_c01(self, st, e, ctx, route):
        c, t = e['lib'], e['twin']
        nb = len(t.bits)
        if nb in (0, 1, 7, 8, 1016, 1017, 1018, 1019, 1020, 1021, 1022, 1023):
            ctx.probe('boundary-bit-length')
        klass = 'bits%%8=%d/refs%d' % (nb % 8, len(t.refs))
        if c.hash != t.hash:
            self.V(ctx, 'hash', route, klass, 'cell of %d bits, %d refs (route %s): hash %s, TON representation hash %s' % (nb, len(t.refs), route, c.hash.hex(), t.hash.hex()))
            return
        for l in range(4):
            ok, h = call(c.get_hash, l)
            if not ok or h != t.hash_at(l):
                self.V(ctx, 'get_hash', route, klass, 'get_hash(%d) = %r, reference %s' % (l, h.hex() if ok else h, t.hash_at(l).hex()))
                return
            ok, d = call(c.get_depth, l)
            if not ok or d != t.depth_at(l):
                self.V(ctx, 'depth', route, klass, 'get_depth(%d) = %r, reference %d (route %s, %d refs)' % (l, d, t.depth_at(l), route, len(t.refs)))
                return
        ok, h = call(c.calculate_representation_hash) if t.mask == 0 else (True, c.hash)  # carve-out: level > 0 hashes are chained (C02's subject)
        if not ok or h != c.hash:
            self.V(ctx, 'recomputed-hash', route, 'with-refs' if t.refs else 'no-refs',
                   'calculate_representation_hash() %s; cached hash %s' % (('raised %r' % h) if not ok else h.hex(), c.hash.hex()))
        ctx.evaluated(1)
        # equality and dictionary-key behaviour against the whole pool
        pool = st.arena + st.callers[0].cells
        for o in pool[-48:]:
            if o is e or o['twin'] is None or o['twin'].special:
                continue
            same = o['twin'].hash == t.hash
            if same:
                ctx.probe('equal-hash-pair')
            ok, r = call(lambda: (c == o['lib'], o['lib'] == c, len({c: 0, o['lib']: 1}) == 1, hash(c) == hash(o['lib'])))
            if not ok:
                self.V(ctx, 'equality', route, 'raises', 'comparing two cells raised %r' % (r,))
                return
            if r[0] != same or r[1] != same or r[2] != same or (same and not r[3]):
                self.V(ctx, 'equality', route, 'equal-hashes' if same else 'different-hashes',
                       '== gives %s/%s, dict-key collision %s, hash() equal %s for cells whose TON hashes are %s' % (r[0], r[1], r[2], r[3], 'equal' if same else 'different'))
                return

    # --- serialisation ---
    def op_to_boc(self, st, op, ctx, k):
        e = st.entry(k, op['c'])
        if e is None:
            return None
        c = e['lib']
        kw = dict(has_idx=bool(op['idx']), hash_crc32=bool(op['crc']), has_cache_bits=bool(op['cache']))
        if len(st.callers[k].blobs) % 2:
            ok, data = call(c.to_boc, bool(op['idx']), bool(op['crc']), bool(op['cache']))     # positional spelling
        else:
            ok, data = call(c.to_boc, **kw)
        if not ok:
            if self.prop == 'C03':
                self.V(ctx, 'serialise-fails', 'to_boc', _shape_class(e['twin']), 'to_boc(%s) of a valid DAG (%s) raised %r' % (kw, _shape_class(e['twin']), data))
            return 'raised:' + type(data).__name__
        if self.prop == 'C08':
            ok2, data2 = call(c.to_boc, **kw)
            if not ok2 or data2 != data:
                self.V(ctx, 'repeat-differs', 'to_boc', 'opts', 'serialising the same cell twice gave different bytes')
        st.callers[k].blobs.append((data, e))
        return data.hex() if len(data) < 4096 else ('len%d' % len(data))

    def op_parse(self, st, op, ctx, k):
        cal = st.callers[k]
        if not cal.blobs:
            return None
        data, e = cal.blobs[op['blob'] % len(cal.blobs)]
        twin = e['twin']
        enc = op['enc']
        arg = data if enc == 'bytes' else (data.hex() if enc == 'hex' else (data.hex().upper() if enc == 'HEX' else base64.b64encode(data).decode()))
        entry = op['entry']
        if op['blob'] % 4 == 1 and self.prop in ('C03', 'C08'):
            # earlier in the process a malformed bag was delivered and rejected (a cell with the exotic flag and fewer than 8
            # data bits - rejected only after its data was unpacked): it is over, the parse below is an ordinary one
            for bad in _MALFORMED_BAGS:
                call(Cell.from_boc, bad)
            ctx.probe('malformed-bag-rejected-earlier-in-the-process')
        held = []

        def first_of_list(a):
            held.append(Cell.from_boc(a))
            return held[0][0]
        fn = {'cell_one': Cell.one_from_boc, 'cell_list': first_of_list, 'slice': Slice.one_from_boc, 'builder': Builder.one_from_boc}[entry]
        ok, obj = call(fn, arg)
        if ok and held and isinstance(held[0], list):
            # the caller uses the list it received as its own work list (pops it empty while walking the DAG, or puts other roots in
            # front); the same serialisation parsed again - in any text form, through any entry point - still denotes its root
            lst = held[0]
            if op['blob'] % 2:
                while lst:
                    lst.pop()
            else:
                lst.insert(0, Cell(tvm_bits('1'), []))
            ctx.probe('caller-edits-the-root-list-it-received')
            routes2 = [(lambda a: Cell.from_boc(a)[0], arg), (Cell.one_from_boc, data)]
            if twin is not None and not twin.special:
                routes2.append((Slice.one_from_boc, data.hex()))
            for fn2, a2 in routes2:
                ok2, again = call(fn2, a2)
                h2 = again.hash if ok2 and isinstance(again, Cell) else (again.to_cell().hash if ok2 else None)
                if not ok2 or h2 != obj.hash:
                    self.V(ctx, 'result-aliases-internal-state', 'from_boc', 'second-parse-after-the-caller-edited-the-root-list',
                           'after the caller edited the list returned by from_boc, parsing the same serialisation again %s'
                           % ('raised %r' % (again,) if not ok2 else 'gave another root'))
                    return 'diff'
        klass = '%s/%s' % (enc if enc != 'HEX' else 'hex', entry)
        if twin is not None and twin.special and entry == 'builder':
            return 'carve-out'
        if not ok:
            if self.prop == 'C03':
                self.V(ctx, 'parse-fails', 'from_boc', klass + '/' + _shape_class(twin), 'parsing the library\'s own serialisation (%s) raised %r' % (klass, obj))
            return 'raised:' + type(obj).__name__
        if self.prop == 'C03' and twin is not None:
            ctx.evaluated(1)
            d = obj_diff(obj, twin)
            if d:
                self.V(ctx, 'structure', 'from_boc', klass + '/' + _shape_class(twin), 'round trip through %s changed the DAG: %s' % (klass, d))
                return 'diff'
            if isinstance(obj, Cell) and obj.hash != e['lib'].hash:
                self.V(ctx, 'root-hash', 'from_boc', klass + '/' + _shape_class(twin), 'root hash changed by the round trip')
        if isinstance(obj, Cell):
            self._register(st, cal.cells, obj, twin, ctx, 'from_boc')
            return obj.hash.hex()
        return type(obj).__name__ + ':' + to01(obj.bits)[:64]

    # --- C08 read-only / derive ops ---
    def op_order(self, st, op, ctx, k):
        e = st.entry(k, op['c'])
        if e is None:
            return None
        c = e['lib']
        if op['arg'] == 'none':
            ok, r = call(c.order)
        elif op['arg'] == 'empty':
            ok, r = call(c.order, {})
        else:
            d = {}
            ok, r = call(c.order, d)
        if not ok:
            return 'raised:' + type(r).__name__
        out = [x.hash.hex()[:16] for x in r]
        then = op.get('then')
        if then and isinstance(r, dict):
            # the caller goes on using the dict it was handed: as the accumulator for another root (the documented use of the
            # argument), or as its own work list.  The cell it came from must still serialise and order as before
            ok0, before = call(c.to_boc)
            other = st.entry(k, op.get('c2', 0))
            if then == 'order_other_into_it' and other is not None:
                call(other['lib'].order, r)
            elif then == 'popitem' and r:
                r.popitem()
            else:
                r.clear()
            ctx.probe('caller-reuses-the-dict-returned-by-order')
            ok1, after = call(c.to_boc)
            ok2, r2 = call(c.order)
            if ok0 != ok1 or (ok0 and before != after):
                self.V(ctx, 'result-aliases-internal-state', 'order', 'to_boc-after-the-caller-edited-the-returned-dict',
                       'after the caller reused the dict returned by order() (%s), to_boc() of the cell changed' % then)
            elif not ok2 or [x.hash.hex()[:16] for x in r2] != out:
                self.V(ctx, 'result-aliases-internal-state', 'order', 'order-after-the-caller-edited-the-returned-dict',
                       'after the caller reused the dict returned by order() (%s), order() of the cell lists other cells' % then)
        return out

    def op_hash(self, st, op, ctx, k):
        e = st.entry(k, op['c'])
        if e is None:
            return None
        c = e['lib']
        if self.prop == 'C08':
            # the caller takes what the read-only accessors hand out (data bytes, representation, hashes) and goes on working with
            # it - `frame = cell.data; frame += header` only rebinds a name if the value is bytes; whatever it is, the cell stays put
            ok0, before = call(c.to_boc)
            for get in (lambda: c.data, c.get_representation, lambda: c.hash, lambda: c.get_hash(0), c.get_data_bytes):
                okg, v = call(get)
                if okg and isinstance(v, (bytearray, list, dict)):
                    try:
                        v += type(v)(b'\x01\x02') if isinstance(v, bytearray) else type(v)()
                        if isinstance(v, bytearray) and v:
                            v[0] ^= 0xff
                    except Exception:
                        pass
                    ctx.probe('accessor-returned-a-mutable-container')
            ok1, after = call(c.to_boc)
            ok2, rh = call(c.calculate_representation_hash) if not c.level_mask.mask else (True, c.hash)
            if ok0 != ok1 or (ok0 and before != after) or (ok2 and rh != c.hash):
                self.V(ctx, 'result-aliases-internal-state', 'data', 'cell-changed-after-the-caller-edited-what-an-accessor-returned',
                       'after the caller edited the value a read-only accessor (data / get_representation / hash) had returned, the cell serialises or hashes differently')
        a = (c.hash, hash(c), c.get_hash(0), c.get_depth(0))
        b = (c.hash, hash(c), c.get_hash(0), c.get_depth(0))
        if a != b:
            self.V(ctx, 'repeat-differs', 'hash', 'cell', 'hashing the same cell twice gave different results')
        return a[0].hex()

    def op_eq(self, st, op, ctx, k):
        a, b = st.entry(k, op['a']), st.entry(k, op['b'])
        if a is None or b is None:
            return None
        return [a['lib'] == b['lib'], len({a['lib']: 1, b['lib']: 2})]

    def op_repr(self, st, op, ctx, k):
        e = st.entry(k, op['c'])
        if e is None:
            return None
        ok, r = call(repr, e['lib'])
        ok2, r2 = call(repr, e['lib'])
        if ok and ok2 and r != r2:
            self.V(ctx, 'repeat-differs', 'repr', 'cell', 'repr of the same cell changed between two calls')
        return r if ok else 'raised'

    def op_parse_load(self, st, op, ctx, k):
        e = st.entry(k, op['c'])
        if e is None:
            return None
        def go():
            c = e['lib']
            route = op.get('route', 'begin_parse')
            if route == 'from_cell':
                s = Slice.from_cell(c)
            elif route == 'to_slice':
                s = c.to_slice()
            elif route == 'copy':
                s = c.begin_parse().copy()
            elif route == 'from_cell_copy':
                s0 = Slice.from_cell(c)
                s = s0.copy()
                s0.skip_bits(min(3, len(c.bits)))
            elif route == 'via_builder':
                s = c.to_builder().to_slice() if c.type_ == -1 else c.begin_parse()
            elif route == 'slice_to_builder':
                s = c.begin_parse()
                if c.type_ == -1:
                    b = s.to_builder()          # a builder derived from the slice is written to; slice and cell must not notice
                    if len(c.bits) < 1000:
                        b.store_bits('101')
                    if len(c.refs) < 4:
                        b.store_ref(c)
            else:
                s = c.begin_parse()
            out = []
            n = op['n']
            if op['how'] == 'load_bits':
                out.append(to01(s.load_bits(n)))
            elif op['how'] == 'skip_bits':
                s.skip_bits(n)
            elif op['how'] == 'load_uint':
                out.append(s.load_uint(max(1, n)))
            else:
                out.append(s.load_bytes(n // 8).hex())
            for _ in range(op['refs']):
                out.append(s.load_ref().hash.hex()[:16])
            out.append(s.remaining_bits)
            return out
        ok, r = call(go)
        return r if ok else 'raised:' + type(r).__name__

    def op_builder_store(self, st, op, ctx, k):
        e = st.entry(k, op['c'])
        o = st.entry(k, op['ref'])
        if e is None or o is None:
            return None
        def go():
            b = e['lib'].to_builder()
            b.store_bits(op['bits'])
            b.store_ref(o['lib'])
            return b.end_cell()
        ok, c = call(go)
        if not ok:
            return 'raised:' + type(c).__name__
        self._register(st, st.callers[k].cells, c, None, ctx, 'builder_store')
        return c.hash.hex()

    def op_from_builder(self, st, op, ctx, k):
        """end_cell, then keep writing to the same builder: the first cell must not move."""
        refs = [e for e in (st.entry(k, r) for r in op['refs']) if e is not None]
        def go():
            b = Builder().store_bits(op['bits'])
            for e in refs:
                b.store_ref(e['lib'])
            c1 = b.end_cell()
            s1 = b.to_slice()
            self._register(st, st.callers[k].cells, c1, None, ctx, 'build')
            b.store_bits(op['more'])
            if len(b.refs) < 4 and refs:
                b.store_ref(refs[0]['lib'])
            c2 = b.end_cell()
            self._register(st, st.callers[k].cells, c2, None, ctx, 'build')
            s1.load_bits(min(3, s1.remaining_bits))
            c3 = s1.to_cell()
            self._register(st, st.callers[k].cells, c3, None, ctx, 'slice_to_cell')
            s1.load_bits(min(2, s1.remaining_bits))
            return [c1.hash.hex(), c2.hash.hex(), c3.hash.hex()]
        ok, r = call(go)
        return r if ok else 'raised:' + type(r).__name__

    def op_mk_dict(self, st, op, ctx, k):
        m = {a: b for a, b in op['m']}
        twin = hashmap.build_hashmap(m, op['n'], lambda v: (tlb.enc_uint(v, 8), ()))
        c = lib_cell_from_rcell(twin)
        self._register(st, st.callers[k].cells, c, twin, ctx, 'direct')
        return c.hash.hex()

    def op_parse_dict(self, st, op, ctx, k):
        e = st.entry(k, op['c'])
        if e is None:
            return None
        def go():
            r = HashMap.parse(e['lib'].begin_parse(), op['n'])
            if r is None:
                return None
            return sorted((kk, to01(v.bits)) for kk, v in r.items())
        ok, r = call(go)
        ok2, r2 = call(go)
        if ok and ok2 and r != r2:
            self.V(ctx, 'repeat-differs', 'HashMap.parse', 'cell', 'parsing the same dictionary cell twice gave different results')
        return r if ok else 'raised:' + type(r).__name__

    def op_tlb_parse(self, st, op, ctx, k):
        e = st.entry(k, op['c'])
        if e is None:
            return None
        from pytoniq_core.tlb.transaction import MessageAny
        from pytoniq_core.tlb.account import Account, StateInit
        cls = {'message': MessageAny, 'account': Account, 'stateinit': StateInit}[op['what']]
        ok, r = call(lambda: cls.deserialize(e['lib'].begin_parse()))
        return 'parsed' if ok else 'raised:' + type(r).__name__

    def op_tlb_wellformed(self, st, op, ctx, k):
        import random as _random
        from pytoniq_core.tlb.transaction import MessageAny
        from pytoniq_core.tlb.account import Account, StateInit, ShardAccount
        from refmodel import chain as rc
        wr = _random.Random(op['seed'])
        what = op['what']
        if what == 'message':
            twin, cls = rc.make_message(wr), MessageAny
        elif what == 'account':
            twin, cls = rc.make_account(wr, wr.choice([0, -1]), bytes(wr.getrandbits(8) for _ in range(32)), extra_currencies=True), Account
        elif what == 'stateinit':
            twin, cls = rc.make_state_init(wr), StateInit
        else:
            acc = rc.make_account(wr, 0, bytes(wr.getrandbits(8) for _ in range(32)), extra_currencies=True)
            twin, cls = RCell(rc.rbits(wr, 256) + tlb.enc_uint(wr.getrandbits(48), 64), (acc,)), ShardAccount
        ok, c = call(lib_cell_from_rcell, twin)
        if not ok:
            return 'construct-raised'
        cal = st.callers[k]
        self._register(st, cal.cells, c, twin, ctx, 'tlb')
        ctx.probe('well-formed-tlb-value-parsed/' + what)

        def go():
            return _freeze(cls.deserialize(c.begin_parse()))
        ok, r = call(go)
        ok2, r2 = call(go)
        if ok != ok2 or (ok and r != r2):
            self.V(ctx, 'repeat-differs', cls.__name__ + '.deserialize', what, 'parsing the same %s cell twice gave different results' % what)
        if not ok:
            return 'raised:' + type(r).__name__
        out = [r]
        if what in ('message', 'stateinit') and op.get('again'):
            def ser():
                return cls.deserialize(c.begin_parse()).serialize().hash.hex()
            ok3, h = call(ser)
            ok4, h2 = call(ser)
            if ok3 != ok4 or (ok3 and h != h2):
                self.V(ctx, 'repeat-differs', cls.__name__ + '.serialize', what, 'serialising the parsed %s twice gave different cells' % what)
            out.append(h if ok3 else 'raised:' + type(h).__name__)
        return out

    def op_vm_serialize(self, st, op, ctx, k):
        from pytoniq_core.tlb.vm_stack import VmStack
        cal = st.callers[k]
        pool = cal.cells or st.arena
        vals = _vm_build(op['items'], pool)
        before = _vm_snap(vals)
        ok, c1 = call(VmStack.serialize, vals)
        after = _vm_snap(vals)
        if before != after:
            self.V(ctx, 'argument-mutated', 'VmStack.serialize', 'tuple' if 'tuple' in repr(op['items']) else 'list',
                   'VmStack.serialize changed the caller\'s values: %s -> %s' % (str(before)[:150], str(after)[:150]))
        if not ok:
            return 'raised:' + type(c1).__name__
        ok2, c2 = call(VmStack.serialize, vals)
        if ok2 and c2.hash != c1.hash:
            self.V(ctx, 'repeat-differs', 'VmStack.serialize', 'tuple' if 'tuple' in repr(op['items']) else 'list', 'serialising the same stack twice gave different cells')
        self._register(st, cal.cells, c1, None, ctx, 'vm')
        if op.get('parse'):
            # the stack cell is parsed back, the caller reads from the slices it was handed (they are its own), and the cell tree
            # must still be what it was: bits of EVERY cell below the stack cell, and a second parse gives the same values
            deep0 = _deep_bits(c1)
            ok3, got = call(lambda: VmStack.deserialize(c1.begin_parse()))
            if not ok3:
                return [c1.hash.hex(), 'parse-raised:' + type(got).__name__]
            first = _vm_snap(got)
            ctx.probe('parsed-stack-values-consumed-by-the-caller')
            call(_vm_consume, got, op.get('consume', 5))
            deep1 = _deep_bits(c1)
            if deep0 != deep1:
                self.V(ctx, 'cell-changed', 'VmStack.deserialize', 'cell-under-parsed-stack', 'reading from the slices returned by VmStack.deserialize changed the data of a cell under the parsed stack cell')
            ok4, again = call(lambda: VmStack.deserialize(c1.begin_parse()))
            if not ok4 or _vm_snap(again) != first:
                self.V(ctx, 'repeat-differs', 'VmStack.deserialize', 'after-consuming-first-result', 'parsing the same stack cell again after the first result was read from gave other values')
            return [c1.hash.hex(), str(first)[:400]]
        return c1.hash.hex()

    # --- C08 invariants ---
    def _check_snapshots(self, st, op, ctx):
        for c in st.live:
            s0 = st.snap[id(c)]
            ok, s1 = call(snapshot, c)
            if not ok or s1 != s0:
                what = 'raised %r' % (s1,) if not ok else _snapdiff(s0, s1)
                self.V(ctx, 'cell-changed', op['op'], what.split(':')[0], 'a live cell changed after %s by caller %s: %s' % (op['op'], op.get('caller'), what))
                st.snap[id(c)] = s1 if ok else s0
        if st.step % 8 == 0:
            for c in st.live[-12:]:
                key = ('boc', id(c))
                ok, b = call(c.to_boc)
                if not ok:
                    continue
                if key in st.snap and st.snap[key] != b:
                    self.V(ctx, 'cell-changed', op['op'], 'serialisation', 'to_boc() of a live cell changed over time')
                st.snap[key] = b
        ctx.evaluated(len(st.live))

    def finish(self, st, ctx):
        if self.prop == 'C01':
            for e in st.arena + st.callers[0].cells:
                if e['twin'] is None or e['twin'].special:
                    continue
                c = e['lib']
                ok, now = call(rcell_from_lib, c)
                if not ok:
                    continue
                if now.hash != c.hash or now.hash != e['twin'].hash:
                    self.V(ctx, 'hash-of-current-content', 'later-operations', 'bits-changed' if now.bits != e['twin'].bits else 'hash',
                           'at the end of the history a cell reports hash %s but its data (%d bits, %d refs) has TON hash %s (created with %d bits)'
                           % (c.hash.hex()[:16], len(now.bits), len(now.refs), now.hash.hex()[:16], len(e['twin'].bits)))
                    return
        if self.prop != 'C08':
            return
        active = [i for i, c in enumerate(st.callers) if c.log]
        if len(active) >= 2:
            ctx.probe('interleaved-callers-%d' % len(active))
        seqs = [o.get('caller') for o in ctx.ops if o.get('caller', -1) >= 0]
        switches = sum(1 for a, b in zip(seqs, seqs[1:]) if a != b)
        ctx.count('caller-switches', switches)
        # I4 non-interference: replay each caller alone (same interpreter, fresh state)
        for k in active:
            solo = St(len(st.callers))
            solo.cfg = st.cfg
            solo.setup_done = True
            reset_hidden_state()
            sub = Subctx(ctx)
            for o in ctx.ops:
                if o.get('caller', -1) in (-1, k):
                    solo.step += 1
                    kk = o.get('caller', 0)
                    obs = getattr(self, 'op_' + o['op'])(solo, o, sub, kk)
                    if kk >= 0:
                        solo.callers[kk].log.append([o['op'], obs])
            a, b = st.callers[k].log, solo.callers[k].log
            if a != b:
                i = next((i for i, (x, y) in enumerate(zip(a, b)) if x != y), min(len(a), len(b)))
                opk = a[i][0] if i < len(a) else '?'
                self.V(ctx, 'interference', opk, 'result-depends-on-other-callers',
                       'caller %d, its operation #%d (%s): interleaved run observed %s, the same operations alone observe %s'
                       % (k, i, opk, str(a[i][1])[:200] if i < len(a) else None, str(b[i][1])[:200] if i < len(b) else None))
                return

    def shrink_op(self, op):
        if 'bits' in op and len(op['bits']) > 1:
            yield dict(op, bits=op['bits'][:len(op['bits']) // 2])
            yield dict(op, bits=op['bits'][:1])
        if isinstance(op.get('refs'), list) and op['refs']:
            yield dict(op, refs=op['refs'][:-1])
        if op['op'] == 'vm_serialize' and len(op['items']) > 1:
            yield dict(op, items=op['items'][:1])
            yield dict(op, items=op['items'][1:])


class Subctx:
    """Context for solo replays: violations found there were already reported by the main run."""

    def __init__(self, ctx):
        self.cfg = ctx.cfg

    def violation(self, v):
        return False

    def probe(self, *a, **k):
        pass

    count = probe
    evaluated = probe
    fault = probe
    obs = probe


C08_OPS = ['create', 'create', 'create', 'to_boc', 'order', 'order', 'hash', 'eq', 'parse_load', 'builder_store', 'from_builder', 'parse_dict', 'mk_dict', 'vm', 'parse_blob', 'repr', 'tlb_parse', 'tlb_wellformed', 'tlb_wellformed']


def _snapdiff(a, b):
    names = ['hash', 'bits', 'refs-identity', 'refs-hashes', 'type', 'level-mask']
    for n, x, y in zip(names, a, b):
        if x != y:
            if n == 'bits':
                return 'bits: %d -> %d bits' % (len(x), len(y))
            return '%s: changed' % n
    return 'unknown'


def obj_diff(obj, twin):
    """Compare a Cell / Slice / Builder returned by a BoC entry point with the model."""
    if isinstance(obj, Cell):
        return struct_diff(obj, twin)
    bits = to01(obj.bits)
    if bits != twin.bits:
        return 'root bits differ (%d vs %d bits)' % (len(bits), len(twin.bits))
    t = getattr(obj, 'type_', -1)
    if isinstance(obj, Slice) and ((t != -1) != twin.special or (twin.special and t != twin.type)):
        return 'root type %r != %r' % (t, twin.type)
    refs = list(obj.refs)
    if len(refs) != len(twin.refs):
        return 'root has %d refs, model %d' % (len(refs), len(twin.refs))
    for i, (a, b) in enumerate(zip(refs, twin.refs)):
        d = struct_diff(a, b)
        if d:
            return 'ref %d: %s' % (i, d)
    return None


def _shape_class(twin):
    if twin is None:
        return 'unknown'
    if twin.depth >= 900:
        return 'deep-chain'
    n = 0
    stack = [twin]
    seen = set()
    special = False
    while stack and n < 300:
        c = stack.pop()
        if c.hash in seen:
            continue
        seen.add(c.hash)
        n += 1
        special = special or c.special
        stack.extend(c.refs)
    size = 'cells>=256' if n >= 256 else 'cells<256'
    return size + ('/exotic' if special else '')


def make_shape(shape, rng):
    """Forced DAG shapes for C03's boundary legs (as RCells)."""
    def leaf(i, nbytes=4):
        return RCell(tlb.enc_bytes(i.to_bytes(4, 'big') + bytes(rng.getrandbits(8) for _ in range(max(0, nbytes - 4)))))
    if shape.startswith('cells'):
        n = int(shape[5:])
        # a complete 4-ary tree in heap order: cell i references cells 4i+1..4i+4 (those below n); exactly n distinct
        # cells, depth log4(n), built bottom-up
        made = [None] * n
        for i in range(n - 1, -1, -1):
            kids = tuple(made[j] for j in range(4 * i + 1, min(4 * i + 5, n)))
            made[i] = RCell(tlb.enc_uint(i, 32), kids)
        prev = made[0]
        assert len(prev.walk()) == n, (len(prev.walk()), n)
        return prev
    if shape.startswith('pay'):
        target = int(shape[3:])
        return payload_shape(target, rng)
    if shape.startswith('empty-chain'):
        # cells without any data, told apart by their depth alone: the cells section is as small as a bag of n cells can be
        cur = RCell('')
        for i in range(int(shape[11:]) - 1):
            cur = RCell('', (cur,))
        return cur
    if shape == 'diamond':
        d = leaf(1)
        b, c = RCell('01', (d,)), RCell('10', (d,))
        return RCell('11', (b, c, d))
    if shape == 'ladder':
        cur = leaf(7)
        for i in range(rng.choice([4, 8, 12])):
            cur = RCell(tlb.enc_uint(i, 8), (cur, cur))
        return cur
    if shape == 'two-same-refs':
        x = leaf(3)
        return RCell('1', (x, x, x, x))
    if shape == 'wide-shared':
        shared = [leaf(i) for i in range(4)]
        mids = [RCell(tlb.enc_uint(i, 16), tuple(rng.sample(shared, rng.randint(1, 4)))) for i in range(12)]
        tops = [RCell(tlb.enc_uint(i, 24), tuple(rng.sample(mids, 4))) for i in range(4)]
        return RCell('', tuple(tops))
    if shape == 'proof-next-to-data':
        a, b = RCell('1100', (leaf(1), leaf(2))), leaf(3)
        full = RCell('1010', (a, b))
        skel = RCell('1010', (pruned_of(a, 1), b))
        return RCell('', (merkle_proof_of(skel), full))
    if shape == 'update-skeleton-vs-full':
        a, b = RCell('1100', (leaf(1), leaf(2))), leaf(3)
        old_skel = RCell('1010', (pruned_of(a, 1), pruned_of(b, 1)))
        new_full = RCell('1010', (a, pruned_of(b, 1)))
        return RCell('1', (merkle_update_of(old_skel, new_full), RCell('1010', (a, b))))
    if shape == 'exotic-lookalike':
        a = RCell('1100', (leaf(1), leaf(2)))
        lib = library_ref_of(a.hash)
        pr = pruned_of(a, 1)
        kids = [RCell('10', (lib,)), RCell(lib.bits), merkle_proof_of(RCell('10', (pr,))), RCell(pr.bits)]
        rng.shuffle(kids)
        return RCell('0110', tuple(kids))
    if shape == 'exotic':
        a = RCell('1100', (leaf(1), leaf(2)))
        b = RCell('0011', (leaf(3),))
        upd = merkle_update_of(RCell('1', (pruned_of(a, 1),)), RCell('0', (pruned_of(b, 1), leaf(9))))
        prf = merkle_proof_of(RCell('111', (pruned_of(a, 1), b)))
        lib = library_ref_of(a.hash)
        return RCell('10101', (upd, prf, lib, a))
    raise AssertionError(shape)


def payload_shape(target, rng):
    """A chain whose serialised cell data (cells_len = 1 or 2 byte refs) totals exactly `target` bytes."""
    for n in range(1, 2000):
        size = 1 if n < 256 else 2
        # every cell: 2 descriptor bytes + data; all but the last have one ref
        fixed = 2 * n + (n - 1) * size
        data_total = target - fixed
        if data_total < n * 4 or data_total > n * 127:
            continue
        lens = [data_total // n] * n
        for i in range(data_total - sum(lens)):
            lens[i] += 1
        cur = None
        for i, ln in enumerate(lens):
            body = i.to_bytes(4, 'big') + bytes(rng.getrandbits(8) for _ in range(ln - 4))
            cur = RCell(tlb.enc_bytes(body), (cur,) if cur is not None else ())
        return cur
    raise AssertionError(target)


# ---- small VM value helper for C08 (full VM world is worlds/vm.py) ----

def _vm_items(rng, depth):
    out = []
    for _ in range(rng.randint(0, 4)):
        r = rng.random()
        if r < 0.2:
            out.append(['null'])
        elif r < 0.5:
            out.append(['int', rng.choice([0, 1, -1, 2 ** 63, -2 ** 63, 2 ** 62, rng.getrandbits(80)])])
        elif r < 0.65:
            out.append(['cell', rng.randrange(1 << 16)])
        elif r < 0.75:
            out.append(['slice', rng.randrange(1 << 16), rng.choice([0, 3])])
        elif depth > 0:
            out.append(['tuple', _vm_items(rng, depth - 1)])
        else:
            out.append(['null'])
    return out


def _deep_bits(root):
    out = []
    seen = set()
    stack = [root]
    while stack:
        c = stack.pop()
        if id(c) in seen:
            continue
        seen.add(id(c))
        out.append((c.hash, to01(c.bits), len(c.refs)))
        stack.extend(c.refs)
    return out


def _vm_consume(vals, n):
    from pytoniq_core.tlb.vm_stack import VmTuple
    for v in vals:
        if isinstance(v, VmTuple):
            _vm_consume(list(v.list), n)
        elif isinstance(v, Slice):
            k = min(n, v.remaining_bits)
            if k:
                v.load_bits(k)
            if v.remaining_refs:
                v.load_ref()
        elif isinstance(v, Builder):
            if v.available_bits:
                v.store_bit(1)


def _vm_build(items, pool):
    from pytoniq_core.tlb.vm_stack import VmTuple
    out = []
    for it in items:
        k = it[0]
        if k == 'null':
            out.append(None)
        elif k == 'int':
            out.append(it[1])
        elif k == 'cell':
            out.append(pool[it[1] % len(pool)]['lib'] if pool else None)
        elif k == 'slice':
            if pool:
                s = pool[it[1] % len(pool)]['lib'].begin_parse()
                if s.remaining_bits >= it[2]:
                    s.skip_bits(it[2])
                out.append(s)
            else:
                out.append(None)
        elif k == 'tuple':
            out.append(VmTuple(_vm_build(it[1], pool)))
    return out


def _freeze(v, depth=0, seen=None):
    """Comparable, JSON-able form of whatever a TL-B deserialiser returned (objects by class name and attributes)."""
    if seen is None:
        seen = set()
    if depth > 12:
        return '...'
    if v is None or isinstance(v, (bool, int, str)):
        return v
    if isinstance(v, (bytes, bytearray)):
        return 'bytes:' + bytes(v).hex()
    if isinstance(v, Cell):
        return 'cell:' + v.hash.hex()
    if isinstance(v, Slice):
        return ['slice', to01(v.bits), [r.hash.hex() for r in v.refs[v.ref_offset:]]]
    if isinstance(v, Builder):
        return ['builder', to01(v.bits), [r.hash.hex() for r in v.refs]]
    if isinstance(v, Address):
        return ['addr', list(map(str, addr_tuple(v)))]
    if isinstance(v, ExternalAddress):
        return ['addr', list(map(str, addr_tuple(v)))]
    if isinstance(v, dict):
        return ['dict', sorted([str(k), _freeze(x, depth + 1, seen)] for k, x in v.items())]
    if isinstance(v, (list, tuple)):
        return ['list', [_freeze(x, depth + 1, seen) for x in v]]
    if id(v) in seen:
        return 'cycle'
    seen = seen | {id(v)}
    d = getattr(v, '__dict__', None)
    if d is not None:
        return [type(v).__name__, sorted([k, _freeze(x, depth + 1, seen)] for k, x in d.items())]
    return 'obj:' + type(v).__name__


def _vm_snap(vals):
    from pytoniq_core.tlb.vm_stack import VmTuple
    out = []
    for v in vals:
        if isinstance(v, VmTuple):
            out.append(('tuple', _vm_snap(list(v.list))))
        elif isinstance(v, Cell):
            out.append(('cell', v.hash))
        elif isinstance(v, Slice):
            out.append(('slice', to01(v.bits), v.ref_offset, len(v.refs)))
        else:
            out.append(v)
    return out
