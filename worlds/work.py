"""WORK world (C19): the step clock (executed pytoniq_core source lines) is the run's only clock; an adversarial
peer picks DAG shapes with maximal sharing and byte strings with hostile count / length fields.

legs
  dag        a sharing family at size n is built through the library and every DAG operation is metered;
             the same family at 2n gives the growth ratio.
  boc-bytes  a valid small BoC (reference encoder, all freedoms) is damaged at every byte position with a set
             of extreme values (CRC recomputed), at whole header fields, by random multi-byte edits and by
             truncation; Cell.from_boc is metered on each.
  tl-bytes   a valid TL frame (reference encoder) has every aligned 32-bit word and every byte replaced by
             extreme counts / length markers; TlSchemas.deserialize is metered on each.
  dict       dictionary cell TREES with maximal / hostile labels; HashMap.parse and parse_hashmap_aug metered.
"""
import random
import resource

from detsim.clock import metered, StepClock, BudgetExceeded
from detsim.core import World, Violation
from refmodel import boc as refboc, hashmap as refhm, chain as refchain, tl as reftl
from refmodel.rcell import RCell, RCellError
from refmodel.tlb import enc_uint
from .common import call, lib_cell_from_rcell, Cell, Builder, Slice
from .wire import make_dag, draw_freedoms, do_encode
from . import tl as tlworld

from pytoniq_core.boc.hashmap.hashmap import HashMap
from pytoniq_core.boc.hashmap.parse import parse_hashmap_aug
from pytoniq_core.tl.generator import TlGenerator


def dag_budget(n, e):
    s = n + e
    return 10000 + 5000 * s + 50 * s * s


def bytes_budget(length):
    return 10000 + 5000 * length


# ---------------------------------------------------------------------------------------------
# DAG families: spec = list of (bits_value, [child indices]) with children having smaller index
# ---------------------------------------------------------------------------------------------

def family_spec(family, n, seed=0):
    sp = []
    if family == 'chain':
        for i in range(n):
            sp.append([i - 1] if i else [])
    elif family == 'ladder2':
        for i in range(n):
            sp.append([i - 1, i - 1] if i else [])
    elif family == 'ladder4':
        for i in range(n):
            sp.append([i - 1] * 4 if i else [])
    elif family == 'ladder3-mixed':
        for i in range(n):
            sp.append([i - 1, max(i - 2, 0), i - 1] if i > 1 else ([0] if i else []))
    elif family == 'fib':
        for i in range(n):
            sp.append([i - 1, i - 2] if i > 1 else ([0] if i else []))
    elif family == 'diamond':
        # c -> (a, b) -> c' ...
        sp.append([])
        while len(sp) + 3 <= n:
            base = len(sp) - 1
            sp.append([base])
            sp.append([base])
            sp.append([len(sp) - 2, len(sp) - 1])
    elif family == 'comb':
        sp.append([])          # shared leaf 0
        sp.append([0])
        for i in range(2, n):
            sp.append([i - 1, 0, i - 1, 0])
    elif family == 'grid':
        k = max(2, int(n ** 0.5))
        idx = {}
        for i in range(k - 1, -1, -1):
            for j in range(k - 1, -1, -1):
                ch = []
                if i + 1 < k:
                    ch.append(idx[(i + 1, j)])
                if j + 1 < k:
                    ch.append(idx[(i, j + 1)])
                idx[(i, j)] = len(sp)
                sp.append(ch)
    elif family == 'random-shared':
        rng = random.Random(seed)
        for i in range(n):
            k = rng.choice([1, 2, 3, 4, 4]) if i else 0
            lo = max(0, i - 3)
            sp.append([rng.randrange(lo, i) for _ in range(k)] if i else [])
    elif family == 'tree4':
        # unshared 4-ary tree, children before parents
        def rec(depth):
            if depth == 0 or len(sp) >= n:
                sp.append([])
                return len(sp) - 1
            ch = [rec(depth - 1) for _ in range(4)]
            sp.append(ch)
            return len(sp) - 1
        d = 1
        while (4 ** (d + 1) - 1) // 3 <= n:
            d += 1
        rec(d - 1)
    else:
        raise AssertionError(family)
    return sp


FAMILIES = ['chain', 'ladder2', 'ladder4', 'ladder3-mixed', 'fib', 'diamond', 'comb', 'grid', 'random-shared', 'tree4', 'mu-ladder', 'mp-chain', 'mu-mixed', 'pruned-fan']
EXOTIC_FAMILIES = ('mu-ladder', 'mp-chain', 'mu-mixed', 'pruned-fan')


def exotic_family(family, n):
    """Sharing families made of exotic cells (valid Merkle proofs / updates / pruned branches), as RCells."""
    from refmodel.rcell import merkle_update_of, merkle_proof_of, pruned_of
    c = RCell(enc_uint(0xC19, 32))
    if family == 'mu-ladder':
        for i in range(1, n):
            c = merkle_update_of(c, c)
    elif family == 'mp-chain':
        for i in range(1, n):
            c = merkle_proof_of(c)
    elif family == 'mu-mixed':
        for i in range(1, n):
            c = merkle_update_of(c, c) if i % 2 else RCell(enc_uint(i, 32), (c, c))
    elif family == 'pruned-fan':
        leaves = [pruned_of(RCell(enc_uint(j, 16)), 1) for j in range(3)]
        c = RCell(enc_uint(1, 32), leaves)
        for i in range(2, n):
            c = RCell(enc_uint(i, 32), (c, leaves[i % 3], c))
        c = merkle_proof_of(c)
    return c


def rcell_size(root):
    seen = {}
    stack = [root]
    e = 0
    while stack:
        c = stack.pop()
        if c.hash in seen:
            continue
        seen[c.hash] = 1
        e += len(c.refs)
        stack.extend(c.refs)
    return len(seen), e


def spec_size(sp):
    """(distinct cells reachable from the last cell, references among them)"""
    seen = set()
    stack = [len(sp) - 1]
    e = 0
    while stack:
        i = stack.pop()
        if i in seen:
            continue
        seen.add(i)
        e += len(sp[i])
        stack.extend(sp[i])
    return len(seen), e


def build_lib(sp):
    """Build the DAG through the Builder route; every cell is distinct (its index is stored in it)."""
    cells = []
    for i, ch in enumerate(sp):
        b = Builder().store_uint(i, 32)
        for c in ch:
            b.store_ref(cells[c])
        cells.append(b.end_cell())
    return cells[-1]


def build_rcell(sp):
    cells = []
    for i, ch in enumerate(sp):
        cells.append(RCell(enc_uint(i, 32), [cells[c] for c in ch]))
    return cells[-1]


DAG_OPS = ['to_boc', 'to_boc_idx_crc', 'to_boc_cache', 'order', 'order_arg', 'from_boc_own', 'from_boc_ref', 'copy', 'hash_eq', 'walk', 'to_builder', 'slice_to_cell', 'wrap', 'repr_hash',
           'slice_from_boc', 'store_cell', 'slice_from_cell', 'slice_copy', 'store_slice', 'eq_inner', 'pair_to_boc', 'parsed_twice', 'order_filled']


class St:
    pass


NESTED_FAMILIES = ['single', 'multi-first', 'multi-last', 'sandwich', 'twice', 'wide']
NESTED_WRAPPERS = ['adnl.message.custom', 'adnl.message.query', 'adnl.message.answer', 'liteServer.query']


class WorkWorld(World):
    name = 'WORK'
    chunk = 4
    real_code = ['pytoniq_core.boc.cell (Cell.__init__/hashing, order, to_boc, from_boc, copy, begin_parse, __eq__/__hash__)', 'pytoniq_core.boc.builder / slice (end_cell, to_cell, to_builder, load_ref)',
                 'pytoniq_core.boc.deserialize.Boc', 'pytoniq_core.boc.hashmap (HashMap.parse, parse_hashmap_aug)', 'pytoniq_core.tl.generator.TlSchemas.deserialize']
    stubs = ['step clock: sys.settrace counting executed lines of the package (the only clock)', 'adversarial peer: sharing families, reference BoC / TL encoders, damage enumerators',
             'reference dictionary builder (refmodel/hashmap.py)']

    def __init__(self, prop, tier):
        super().__init__(prop, tier)
        q = tier == 'quick'
        self.legs = [('dag', 800 if q else 30000), ('boc-bytes', 160 if q else 6000), ('tl-bytes', 240 if q else 10000), ('dict', 480 if q else 20000),
                     ('tl-nested', 96 if q else 3000)]
        self.budget = {'quick': 110, 'thorough': 1500}
        self._schemas = None

    def get_legs(self):
        return self.legs

    def rule(self):
        return ('Time = executed source lines of pytoniq_core (step clock). dag: for a family in {chain, ladder with 2/3/4 repeated references, fibonacci, diamond chain, comb, grid (binomially many paths), '
                'random heavy sharing, unshared 4-ary tree, ladders of Merkle updates / proofs and mixed exotic-ordinary ladders, pruned-branch fans} at n distinct cells and e references (n+e <= 160) each of 23 operations (to_boc in 3 option sets, order with and without argument and of several roots into one already filled bag, from_boc of own '
                'and of reference-encoded bytes, copy, hash/==/dict key, slice walk, to_builder, Slice.to_cell, wrapping store_ref+end_cell, recomputed representation hash, Slice.one_from_boc, '
                'store_cell, Slice.from_cell, Slice.copy, store_slice) must finish within 10000 + 5000(n+e) + 50(n+e)^2 steps, and steps(2n) <= 8 steps(n) + 10000. boc-bytes / tl-bytes: every damaged input of length L must finish (return '
                'or raise) within 10000 + 5000 L steps; per sampled input the byte-position x extreme-value set is enumerated exhaustively. dict: parse of a dictionary tree of c cells within the dag '
                'budget for (c, c-1). A call aborted by the clock is a violation; so is MemoryError under a 4 GiB address-space limit. evaluations = metered calls; non-trivial = a sharing family, a damaged '
                'input or a hostile label was used; distinct = distinct (family/size, operation set, damage classes).')

    def assumptions(self):
        return ['work is measured in executed Python source lines of the package; time spent inside C functions (bitarray, hashlib, bytes slicing) is not seen by the clock except through the 60 s wall backstop',
                'budget constants (5000 lines per element, 50 per element pair) leave a x25..x250 margin over today\'s cost (to_boc 15, from_boc 68, build 59 lines per n+e)',
                'dictionary inputs are trees: a dictionary cell DAG with shared subtrees denotes exponentially many keys and is not held to the bound (DESIGN 6/C19)',
                'str()/repr() of cells are not among the operations the statement lists']

    def make_config(self, rng, leg, run_index):
        if leg == 'dag':
            fam = FAMILIES[run_index % len(FAMILIES)]
            per = {'chain': 4, 'ladder2': 3, 'ladder4': 5, 'ladder3-mixed': 4, 'fib': 3, 'diamond': 3, 'comb': 5, 'grid': 3, 'random-shared': 4, 'tree4': 2,
                   'mu-ladder': 3, 'mp-chain': 2, 'mu-mixed': 3, 'pruned-fan': 4}[fam]
            nmax = 160 // per // 2     # so that the 2n instance still has n+e <= 160
            return {'family': fam, 'n': rng.randint(4, max(5, nmax)), 'nmax': nmax, 'seed': rng.getrandbits(32)}
        if leg == 'boc-bytes':
            cfg = {'ncells': rng.choice([1, 2, 3, 5, 8, 12]), 'exotic': rng.random() < 0.3, 'dag_seed': rng.getrandbits(32)}
            if run_index % 4 == 3:
                cfg['ladder'] = rng.choice([24, 32, 45, 60])
            return cfg
        if leg == 'tl-bytes':
            return {'seed': rng.getrandbits(32), 'vclass': run_index}
        if leg == 'tl-nested':
            fam = NESTED_FAMILIES[run_index % len(NESTED_FAMILIES)]
            return {'family': fam, 'depth': rng.choice([6, 10, 14, 18, 22]), 'wrap': rng.choice(NESTED_WRAPPERS), 'seed': rng.getrandbits(32)}
        return {'keys': rng.choice([1, 2, 3, 8, 20, 60]), 'width': rng.choice([1, 2, 8, 32, 64, 256, 267, 500, 1023]), 'kind': rng.choice(['dense', 'sparse', 'same0', 'same1', 'random']),
                'seed': rng.getrandbits(32), 'aug': rng.random() < 0.3}

    def V(self, ctx, invariant, opkind, klass, msg):
        return ctx.violation(Violation(self.prop, invariant, opkind, klass, msg))

    # ------------------------------------------------------------------ run / replay
    def run(self, ctx):
        try:
            resource.setrlimit(resource.RLIMIT_AS, (4 << 30, resource.getrlimit(resource.RLIMIT_AS)[1]))
        except (ValueError, OSError):
            pass
        getattr(self, 'run_' + ctx.leg.replace('-', '_'))(ctx, None)

    def replay(self, ctx, ops):
        getattr(self, 'run_' + ctx.leg.replace('-', '_'))(ctx, ops)

    def _fail(self, ctx, ops, invariant, opkind, klass, msg):
        keep = list(ctx.ops)
        ctx.ops = list(ops)
        self.V(ctx, invariant, opkind, klass, msg)   # raises unless it is a listed known finding
        ctx.ops = keep

    # ------------------------------------------------------------------ dag
    def _dag_op(self, what, root, rroot, aux):
        """Returns a thunk executing one DAG operation on the library cell `root`."""
        if what == 'to_boc':
            return lambda: root.to_boc()
        if what == 'to_boc_idx_crc':
            return lambda: root.to_boc(has_idx=True, hash_crc32=True)
        if what == 'to_boc_cache':
            return lambda: root.to_boc(has_idx=True, has_cache_bits=True, flags=2)
        if what == 'order':
            return lambda: root.order()
        if what == 'order_arg':
            return lambda: root.order({})
        if what == 'order_filled':
            # the documented accumulator use of the argument: several roots ordered into ONE bag - a sub-DAG first, then the root above
            # it, an equal copy held as other objects, and the root once more (everything it reaches is in the bag already)
            other = aux['twin']

            def order_filled():
                bag = {}
                (root.refs[-1] if root.refs else root).order(bag)
                root.order(bag)
                other.order(bag)
                root.order(bag)
                return len(bag)
            return order_filled
        if what == 'from_boc_own':
            data = aux.get('own')
            return (lambda: Cell.one_from_boc(data)) if data is not None else None
        if what == 'from_boc_ref':
            data = aux['ref']
            return lambda: Cell.from_boc(data)
        if what == 'slice_from_boc':
            data = aux['ref']
            return lambda: Slice.one_from_boc(data)
        if what == 'copy':
            return lambda: root.copy()
        if what == 'hash_eq':
            other = aux['twin']
            return lambda: (hash(root), root == other, {root: 1, other: 2}, root.hash, root.get_depth(0))
        if what == 'walk':
            def walk():
                c = root
                k = 0
                while c.refs and k < 2000:
                    s = c.begin_parse()
                    s.load_uint(32)
                    c = s.load_ref()
                    k += 1
                return k
            return walk
        if what == 'to_builder':
            return lambda: root.to_builder().end_cell()
        if what == 'slice_to_cell':
            return lambda: root.begin_parse().to_cell()
        if what == 'wrap':
            return lambda: Builder().store_uint(7, 8).store_ref(root).store_ref(root).end_cell()
        if what == 'store_cell':
            return lambda: Builder().store_cell(root).end_cell() if len(root.refs) <= 4 else None
        if what == 'slice_from_cell':
            return lambda: Slice.from_cell(root)
        if what == 'slice_copy':
            return lambda: root.begin_parse().copy().to_cell()
        if what == 'store_slice':
            return lambda: Builder().store_slice(root.begin_parse()).end_cell()
        if what == 'repr_hash':
            return lambda: root.calculate_representation_hash()
        if what == 'eq_inner':
            # equal cells held as distinct objects (built twice), compared below the root where levels are non-zero
            other = aux['twin']

            def eq_inner():
                a, b, k = root, other, 0
                res = []
                while k < 6:
                    res.append((a == b, {a: 1}.get(b), a in [b], hash(a) == hash(b)))
                    if not a.refs or not b.refs:
                        break
                    a, b = a.refs[-1], b.refs[-1]
                    k += 1
                return res
            return eq_inner
        if what == 'pair_to_boc':
            # one tree holding two equal copies that are distinct objects: n distinct cells, serialised once
            other = aux['twin']
            return lambda: Cell.one_from_boc(Builder().store_ref(root).store_ref(other).end_cell().to_boc(has_idx=False))
        if what == 'parsed_twice':
            data = aux['ref']

            def parsed_twice():
                a = Cell.one_from_boc(data)
                b = Cell.one_from_boc(data)
                r = [a == b, {a: 0, b: 1}]
                x, y = a, b
                for _ in range(4):
                    if not x.refs:
                        break
                    x, y = x.refs[0], y.refs[0]
                    r.append(x == y)
                r.append(Builder().store_ref(a).store_ref(b).end_cell().to_boc())
                return r
            return parsed_twice
        raise AssertionError(what)

    def _dag_measure(self, ctx, fam, n, seed, whats, ops_prefix, record):
        if fam in EXOTIC_FAMILIES:
            rroot = exotic_family(fam, n)
            nn, e = rcell_size(rroot)
            sp = rroot
            builder = lib_cell_from_rcell      # Cell(bits, refs, type) bottom-up
        else:
            sp = family_spec(fam, n, seed)
            nn, e = spec_size(sp)
            builder = build_lib
        budget = dag_budget(nn, e)
        out = {}
        st, root, steps = metered(budget, builder, sp)
        ctx.evaluated(1)
        ctx.tick(steps)
        out['build'] = (st, steps, nn, e, budget)
        if st != 'ok':
            return out, None
        if fam not in EXOTIC_FAMILIES:
            rroot = build_rcell(sp)
        aux = {'ref': refboc.encode([rroot], has_idx=bool(seed & 1), has_crc=bool(seed & 2))}
        # helpers are library calls too: they run under the same clock and budget, never unmetered
        st2, twin, _ = metered(budget, builder, sp)
        aux['twin'] = twin if st2 == 'ok' else root
        st2, own, _ = metered(budget, root.to_boc)
        if st2 == 'ok':
            aux['own'] = own
        for w in whats:
            thunk = self._dag_op(w, root, rroot, aux)
            if thunk is None:
                continue
            st, res, steps = metered(budget, thunk)
            ctx.evaluated(1)
            ctx.tick(steps)
            out[w] = (st, steps, nn, e, budget)
        return out, root

    def run_dag(self, ctx, ops):
        cfg = ctx.cfg
        fam, seed = cfg['family'], cfg['seed']
        if ops is None:
            n = cfg['n']
            whats = list(DAG_OPS)
            ctx.rng.shuffle(whats)
            ops = [{'op': 'shape', 'family': fam, 'n': n}] + [{'op': 'metered', 'what': w} for w in whats] + [{'op': 'growth'}]
        shape = next((o for o in ops if o['op'] == 'shape'), None)
        if shape is None:
            return
        n = shape['n']
        whats = [o['what'] for o in ops if o['op'] == 'metered']
        ctx.op(shape)
        ctx.tag(fam, n)
        if fam not in ('chain', 'tree4'):
            ctx.probe('shared-subdags-' + fam)
        res, root = self._dag_measure(ctx, fam, n, seed, whats, None, True)
        for w in ['build'] + whats:
            if w not in res:
                continue
            st, steps, nn, e, budget = res[w]
            op = {'op': 'metered', 'what': w}
            if w != 'build':
                ctx.op(op)
            ctx.obs(w, st, steps)
            if st == 'budget':
                self._fail(ctx, [shape] + ([op] if w != 'build' else []), 'budget-exceeded', w, fam,
                           '%s on the %s family with %d cells / %d references did not finish within %d steps (10000 + 5000(n+e) + 50(n+e)^2)' % (w, fam, nn, e, budget))
            elif st == 'raised' and isinstance(res[w], tuple) and w != 'build':
                pass
        if any(o['op'] == 'growth' for o in ops) and root is not None:
            gop = {'op': 'growth'}
            ctx.op(gop)
            res2, _ = self._dag_measure(ctx, fam, 2 * n, seed, whats, None, False)
            for w in ['build'] + whats:
                if w not in res or w not in res2:
                    continue
                s1, s2 = res[w][1], res2[w][1]
                ctx.obs('growth', w, s2)
                if res2[w][0] == 'budget':
                    self._fail(ctx, [dict(shape, n=2 * n)] + ([{'op': 'metered', 'what': w}] if w != 'build' else []), 'budget-exceeded', w, fam,
                               '%s on the %s family with %d cells / %d references did not finish within %d steps' % (w, fam, res2[w][2], res2[w][3], res2[w][4]))
                elif res[w][0] == 'ok' and res2[w][0] == 'ok' and s2 > 8 * s1 + 10000:
                    ctx.probe('growth-checked')
                    self._fail(ctx, [shape] + ([{'op': 'metered', 'what': w}] if w != 'build' else []) + [gop], 'super-polynomial-growth', w, fam,
                               '%s on %s: %d steps at n=%d but %d at n=%d (more than 8x)' % (w, fam, s1, n, s2, 2 * n))
            ctx.probe('growth-checked')

    # ------------------------------------------------------------------ boc bytes
    @staticmethod
    def _as_text(data, form):
        import base64
        return base64.b64encode(data).decode() if form == 'b64' else (data.hex().upper() if form == 'HEX' else data.hex())

    def run_boc_bytes(self, ctx, ops):
        cfg = ctx.cfg
        if cfg.get('ladder'):
            # a ladder of shared cells (each references the next one twice) whose data starts with a byte that names an exotic
            # type: one flipped descriptor bit makes a cell claim to be pruned / library / Merkle while it has references - a
            # malformed cell on top of 2^depth paths.  Rejecting it (or not) must cost the input's length, not the number of paths
            lr = random.Random(cfg['dag_seed'])
            cur = RCell(enc_uint(lr.choice([1, 2, 3, 4]), 8) + enc_uint(lr.getrandbits(8), 8))
            cells = [cur]
            for i in range(cfg['ladder']):
                cur = RCell(enc_uint(lr.choice([1, 1, 2, 3, 4, lr.getrandbits(8)]), 8) + enc_uint(i & 255, 8), (cur, cur))
                cells.append(cur)
            ctx.probe('shared-ladder-with-exotic-looking-data')
        else:
            cells = make_dag(cfg['dag_seed'], cfg['ncells'], cfg['exotic'])
        if ops is None:
            f = draw_freedoms(ctx.rng, cells)
            if cfg.get('ladder'):
                f['nroots'], f['hashes'] = 1, 'none'
            enc_op = {'op': 'encode', 'freedoms': f}
        else:
            enc_op = next((o for o in ops if o['op'] == 'encode'), None)
            if enc_op is None:
                return
            f = enc_op['freedoms']
        ctx.op(enc_op)
        data, roots, order, size = do_encode(cells, f)
        if len(data) > 420:
            return
        ctx.tag(f['magic'], f['has_idx'], f['has_crc'], len(order))
        has_crc = f['has_crc']

        def damaged(d):
            b = bytearray(data)
            k = d['kind']
            if k == 'byte':
                b[d['pos'] % len(b)] = d['val']
            elif k == 'field':
                p = d['pos'] % len(b)
                b[p:p + d['width']] = bytes([d['val']]) * len(b[p:p + d['width']])
            elif k == 'multi':
                r = random.Random(d['seed'])
                for _ in range(r.choice([2, 3, 5])):
                    b[r.randrange(len(b))] = r.choice([0, 1, 0x7f, 0x80, 0xfe, 0xff, r.getrandbits(8)])
            elif k == 'special-bit':
                b[d['pos'] % len(b)] |= 8
            elif k == 'truncate':
                b = b[:d['len']]
                return bytes(b)
            elif k == 'none':
                return bytes(b)
            if has_crc and len(b) >= 4 and d.get('fix_crc', True):
                b[-4:] = refboc.crc32c_fast(bytes(b[:-4]))
            return bytes(b)

        if ops is None:
            L = len(data)
            plan = [{'kind': 'none'}]
            for pos in range(L):
                for val in (0x00, 0x01, 0x7f, 0x80, 0xfe, 0xff):
                    if data[pos] != val:
                        plan.append({'kind': 'byte', 'pos': pos, 'val': val})
            for pos in range(4, min(L, 40)):
                for width in (2, 3, 4, 8):
                    plan.append({'kind': 'field', 'pos': pos, 'width': width, 'val': 0xff})
            for pos in range(L):
                if not data[pos] & 8:
                    plan.append({'kind': 'special-bit', 'pos': pos})
            for k in range(60):
                plan.append({'kind': 'multi', 'seed': ctx.rng.getrandbits(32)})
            for ln in range(0, L, 7):
                plan.append({'kind': 'truncate', 'len': ln})
            # the same bag as TEXT (the parser takes hex and base64 strings too), cut at every length: broken padding, odd digit
            # counts, groups of 4k+1 characters
            for form in ('b64', 'hex', 'HEX'):
                tl = len(self._as_text(data, form))
                for ln in list(range(0, min(tl, 48))) + list(range(max(0, tl - 12), tl + 1)):
                    plan.append({'kind': 'text', 'form': form, 'len': ln})
        else:
            plan = [o['damage'] for o in ops if o['op'] == 'parse']
        for d in plan:
            inp = self._as_text(data, d['form'])[:d['len']] if d['kind'] == 'text' else damaged(d)
            budget = bytes_budget(len(inp))
            st, res, steps = metered(budget, Cell.from_boc, inp)
            ctx.evaluated(1)
            ctx.tick(steps)
            if d['kind'] != 'none':
                ctx.fault('boc-' + d['kind'])
            if ops is not None:
                ctx.op({'op': 'parse', 'damage': d})
            if st == 'budget':
                self._fail(ctx, [enc_op, {'op': 'parse', 'damage': d}], 'budget-exceeded', 'from_boc', 'damaged-' + d['kind'],
                           'Cell.from_boc on a %d-byte input did not finish within %d steps' % (len(inp), budget))
            elif st == 'raised' and isinstance(res, MemoryError):
                self._fail(ctx, [enc_op, {'op': 'parse', 'damage': d}], 'allocation-by-count-field', 'from_boc', 'damaged-' + d['kind'],
                           'Cell.from_boc on a %d-byte input ran out of memory' % len(inp))
            elif st == 'ok' and d['kind'] != 'none':
                ctx.count('damaged-input-accepted')

    # ------------------------------------------------------------------ tl bytes
    def _get_schemas(self):
        if self._schemas is None:
            self._schemas = TlGenerator.with_default_schemas().generate()
        return self._schemas

    def run_tl_bytes(self, ctx, ops):
        ref = tlworld.ref_schema()
        sch = self._get_schemas()
        if ops is None:
            rng = ctx.rng
            g = tlworld.Gen(rng, ref, set(k[::-1] for k in sch.id_map.keys()))
            # constructors with vectors / bytes are the interesting ones
            pool = [n for n in ref.domain if any(reftl.vector_elem(f.type) or f.type in ('bytes', 'string') for f in ref.by_name[n].fields)]
            # every element kind of a vector gets its share of runs: the count field of each is a separate code path
            classes = {}
            for n in pool:
                for f in ref.by_name[n].fields:
                    el = reftl.vector_elem(f.type.split('?')[-1])
                    if el:
                        k = el if el in ('int', 'long', 'int256', 'int128', 'bytes', 'string', 'Bool') else ('bare' if reftl.is_bare_name(el) else 'boxed')
                        classes.setdefault('vector-of-' + k, []).append(n)
            order = sorted(classes) + ['any', 'any']
            want = order[rng.randrange(len(order))] if ctx.cfg.get('vclass') is None else order[ctx.cfg['vclass'] % len(order)]
            if want != 'any':
                pool = sorted(set(classes[want]))
                ctx.probe('tl-' + want)
            for _ in range(20):
                name = rng.choice(pool)
                val = g.obj(ref.by_name[name], 3, typed=True)
                wire = ref.encode(name, val)
                if 8 <= len(wire) <= 600:
                    break
            else:
                return
            enc_op = {'op': 'frame', 'ctor': name, 'value': tlworld.to_json(val)}
        else:
            enc_op = next((o for o in ops if o['op'] == 'frame'), None)
            if enc_op is None:
                return
            try:
                wire = ref.encode(enc_op['ctor'], tlworld.from_json(enc_op['value']))
            except Exception:
                return
        ctx.op(enc_op)
        ctx.tag(enc_op['ctor'])
        L = len(wire)

        def damaged(d):
            b = bytearray(wire)
            if d['kind'] == 'word':
                p = d['pos'] % max(1, len(b) - 3)
                b[p:p + 4] = (d['val'] & 0xFFFFFFFF).to_bytes(4, 'little')
            elif d['kind'] == 'byte':
                b[d['pos'] % len(b)] = d['val']
            elif d['kind'] == 'truncate':
                b = b[:d['len']]
            return bytes(b)

        if ops is None:
            plan = [{'kind': 'none'}]
            for pos in range(0, L - 3, 4):
                for val in (0xFFFFFFFF, 0x7FFFFFFF, 0x00FFFFFF, 0x01000000, L, L // 4, 0x80000000):
                    plan.append({'kind': 'word', 'pos': pos, 'val': val})
            for pos in range(L):
                for val in (0xfe, 0xff, 0xfd, 0x00):
                    if wire[pos] != val:
                        plan.append({'kind': 'byte', 'pos': pos, 'val': val})
            for ln in range(0, L, 4):
                plan.append({'kind': 'truncate', 'len': ln})
        else:
            plan = [o['damage'] for o in ops if o['op'] == 'parse']
        for d in plan:
            inp = damaged(d)
            budget = bytes_budget(len(inp))
            st, res, steps = metered(budget, sch.deserialize, inp)
            ctx.evaluated(1)
            ctx.tick(steps)
            if d['kind'] != 'none':
                ctx.fault('tl-' + d['kind'])
            if ops is not None:
                ctx.op({'op': 'parse', 'damage': d})
            if st == 'budget':
                self._fail(ctx, [enc_op, {'op': 'parse', 'damage': d}], 'budget-exceeded', 'tl-deserialize', 'damaged-' + d['kind'],
                           'TlSchemas.deserialize on a %d-byte input did not finish within %d steps' % (len(inp), budget))
            elif st == 'raised' and isinstance(res, MemoryError):
                self._fail(ctx, [enc_op, {'op': 'parse', 'damage': d}], 'allocation-by-count-field', 'tl-deserialize', 'damaged-' + d['kind'],
                           'TlSchemas.deserialize on a %d-byte input ran out of memory' % len(inp))

    # ------------------------------------------------------------------ nested tl frames
    def _nested_frame(self, ref, fam, wrap, depth, seed):
        """A valid frame whose bytes field holds TL objects, which hold TL objects ...: the library parses such payloads
        recursively.  Returns the wire bytes."""
        rnd = random.Random(seed)
        nop = ref.encode('adnl.message.nop', {})

        def wrapv(payload):
            c = ref.by_name[wrap]
            val = {}
            for f in c.fields:
                if f.type == 'bytes':
                    val[f.name] = payload
                elif f.type == 'int256':
                    val[f.name] = '%064x' % rnd.getrandbits(256)
                elif f.type in ('int', 'long'):
                    val[f.name] = rnd.getrandbits(16)
                else:
                    raise KeyError(f.type)
            return ref.encode(wrap, val)

        cur = nop
        for _ in range(depth):
            if fam == 'single':
                payload = cur
            elif fam == 'multi-first':
                payload = cur + nop
            elif fam == 'multi-last':
                payload = nop + cur
            elif fam == 'sandwich':
                payload = nop + cur + nop
            elif fam == 'twice':
                payload = cur + cur if len(cur) < 40 else cur + nop
            else:   # 'wide': many small objects side by side, nested once per level
                payload = cur + nop * 3
            cur = wrapv(payload)
        return cur

    def run_tl_nested(self, ctx, ops):
        ref = tlworld.ref_schema()
        sch = self._get_schemas()
        cfg = ctx.cfg
        if ops is None:
            plan = [{'op': 'nested', 'family': cfg['family'], 'wrap': cfg['wrap'], 'depth': cfg['depth'], 'seed': cfg['seed']}]
        else:
            plan = [o for o in ops if o['op'] == 'nested']
        for op in plan:
            ctx.op(op)
            ctx.tag(op['family'], op['wrap'])
            steps_at = {}
            for mult in (1, 2):
                d = op['depth'] * mult
                try:
                    wire = self._nested_frame(ref, op['family'], op['wrap'], d, op['seed'])
                except Exception:
                    return
                if len(wire) > 4000:
                    break
                budget = bytes_budget(len(wire))
                st, res, steps = metered(budget, sch.deserialize, wire)
                ctx.evaluated(1)
                ctx.tick(steps)
                ctx.fault('tl-nested-' + op['family'])
                steps_at[mult] = (steps, len(wire))
                if st == 'budget':
                    self._fail(ctx, [op], 'budget-exceeded', 'tl-deserialize', 'nested-' + op['family'],
                               'TlSchemas.deserialize on a valid %d-byte frame with %d levels of objects inside bytes fields did not finish within %d steps' % (len(wire), d, budget))
                    return
                if st == 'raised' and isinstance(res, MemoryError):
                    self._fail(ctx, [op], 'allocation-by-count-field', 'tl-deserialize', 'nested-' + op['family'], 'ran out of memory on a %d-byte frame' % len(wire))
                    return
            if 1 in steps_at and 2 in steps_at:
                ctx.probe('nested-growth-checked')
                (s1, l1), (s2, l2) = steps_at[1], steps_at[2]
                # twice the depth is about twice the bytes (more for 'twice'): allow the length ratio squared plus slack
                ratio = max(2.0, l2 / max(1, l1))
                if s2 > 2 * ratio * ratio * s1 + 10000:
                    self._fail(ctx, [op], 'super-polynomial-growth', 'tl-deserialize', 'nested-' + op['family'],
                               'doubling the nesting depth %d -> %d (bytes %d -> %d) multiplied the parser\'s work by %.1f (%d -> %d steps)' % (op['depth'], 2 * op['depth'], l1, l2, s2 / max(1, s1), s1, s2))
                    return

    # ------------------------------------------------------------------ dictionaries
    def run_dict(self, ctx, ops):
        cfg = ctx.cfg
        rng = random.Random(cfg['seed'])
        w, kind, nk = cfg['width'], cfg['kind'], cfg['keys']
        nk = min(nk, 2 ** min(w, 20))
        keys = set()
        tries = 0
        while len(keys) < nk and tries < 10000:
            tries += 1
            if kind == 'dense':
                keys.add(len(keys))
            elif kind == 'sparse':
                keys.add(rng.getrandbits(w) | (1 << (w - 1)) if rng.random() < 0.5 else rng.getrandbits(w))
            elif kind == 'same0':
                keys.add((1 << rng.randrange(w)) if len(keys) else 0)
            elif kind == 'same1':
                keys.add(((1 << w) - 1) ^ ((1 << rng.randrange(w)) if len(keys) else 0))
            else:
                keys.add(rng.getrandbits(w))
        vbits = 8
        aug = cfg['aug']
        try:
            if aug:
                items = {bin(k)[2:].zfill(w): k & 0xff for k in keys}
                root, _ = refhm.build_edge(items, w, lambda v: (enc_uint(v, 8) + enc_uint(v, vbits), (), v), lambda a, b: ((a + b) & 0xff, enc_uint((a + b) & 0xff, 8)))
            else:
                root = refhm.build_hashmap({k: k & 0xff for k in keys}, w, lambda v: (enc_uint(v, vbits), ()))
        except RCellError:
            return   # contents TON cannot represent (label + payload over 1023 bits)
        if ops is None:
            plan = [{'op': 'parse', 'damage': None}]
            subs = [(p, c) for p, c in refchain.subtrees(root, False)] + [((), root)]
            for _ in range(6):
                p, c = rng.choice(subs)
                plan.append({'op': 'parse', 'damage': {'path': list(p), 'seed': rng.getrandbits(32), 'how': rng.choice(['ones', 'random', 'same-max', 'long-max', 'flip'])}})
            # an edge label LONGER than the key bits that remain is not a dictionary at all; below it sits a ladder of shared
            # cells (both references to the next cell) that ends in a library cell: a parser that walks on with a negative
            # remaining length visits 2^depth paths of a ~100-byte input
            for ladder in ('short', rng.choice(['same', 'long'])):
                plan.append({'op': 'parse_overlong', 'depth': rng.choice([12, 20, 30, 60]), 'form': rng.choice(['short', 'long', 'same']) if ladder == 'short' else rng.choice(['long', 'same']),
                             'below': rng.choice([0, 0, 1, 2]), 'over': rng.choice([1, 2, 5]), 'ladder': ladder})
        else:
            plan = [o for o in ops if o['op'] in ('parse', 'parse_overlong')]
        ctx.tag(w, kind, len(keys), aug)
        for op in plan:
            if op['op'] == 'parse_overlong':
                self._overlong(ctx, op, w, aug)
                continue
            tree = root
            d = op['damage']
            if d is not None:
                def edit(old, d=d):
                    r = random.Random(d['seed'])
                    b = old.bits
                    how = d['how']
                    if how == 'ones':
                        nb = '0' + '1' * min(len(b), 1022)
                    elif how == 'random':
                        nb = ''.join(r.choice('01') for _ in range(len(b)))
                    elif how == 'same-max':
                        nb = '11' + r.choice('01') + '1' * 10 + b[13:]
                    elif how == 'long-max':
                        nb = '10' + '1' * 10 + b[12:]
                    else:
                        i = r.randrange(max(1, min(len(b), 16)))
                        nb = b[:i] + ('1' if b[i:i + 1] == '0' else '0') + b[i + 1:]
                    return RCell(nb[:1023], old.refs)
                try:
                    tree = refchain.rebuild(root, {tuple(d['path']): edit}) if d['path'] else edit(root)
                except (RCellError, KeyError, IndexError):
                    continue
                ctx.fault('dict-label-' + d['how'])
            cells = sum(1 for _ in tree.walk())
            budget = dag_budget(cells, cells - 1)
            lc = lib_cell_from_rcell(tree)
            if aug:
                thunk = lambda: parse_hashmap_aug(lc.begin_parse(), w, lambda s: s.load_uint(8), lambda s: s.load_uint(8))
                what = 'parse_hashmap_aug'
            else:
                thunk = lambda: HashMap.parse(lc.begin_parse(), w)
                what = 'HashMap.parse'
            st, res, steps = metered(budget, thunk)
            ctx.op(op)
            ctx.evaluated(1)
            ctx.tick(steps)
            ctx.obs(st, steps)
            if st == 'budget':
                self.V(ctx, 'budget-exceeded', what, 'hostile-label' if d else 'valid-' + kind,
                       '%s of a %d-cell dictionary tree (key width %d) did not finish within %d steps' % (what, cells, w, budget))
            elif st == 'ok' and d is None and not aug:
                if res is None or len(res) != len(keys):
                    ctx.count('dict-parse-count-mismatch')

    def _overlong(self, ctx, op, w, aug):
        from refmodel.rcell import library_ref_of
        below = min(op['below'], max(0, w - 1))
        m = w - below                                  # key bits that remain at the cell carrying the bad label
        n = m + op['over']
        form = op['form']
        lb = m.bit_length()
        if form != 'short' and n >= (1 << lb):
            n = (1 << lb) - 1
        if n <= m or 2 + lb + n > 1000:
            form, n = 'short', m + 1
            if 2 + 2 * n > 1000:
                return
        if form == 'short':
            label = '0' + '1' * n + '0' + '10' * (n // 2) + '1' * (n % 2)
        elif form == 'long':
            label = '10' + enc_uint(n, lb) + ('10' * n)[:n]
        else:
            label = '111' + enc_uint(n, lb)
        extra = (enc_uint(0, 8) if aug else '')
        cur = library_ref_of(bytes(32))
        ladder = op.get('ladder', 'short')
        for i in reversed(range(op['depth'])):
            if ladder == 'short':
                lab = '00'
            else:
                # empty labels in the long / same form, their length field as wide as a parser that carries the (negative)
                # remaining length m - n - 1 - i down would read it
                wdt = abs(m - n - 1 - i).bit_length()
                lab = ('10' if ladder == 'long' else '110') + '0' * wdt
            cur = RCell(lab + extra, (cur, cur))
        try:
            cur = RCell(label + extra, (cur, cur))
            for i in range(below):
                cur = RCell('00' + extra, (cur, cur))      # valid forks (empty labels) above the bad cell
        except RCellError:
            return
        cells = op['depth'] + below + 2
        budget = dag_budget(cells, 2 * (cells - 1))
        lc = lib_cell_from_rcell(cur)
        if aug:
            thunk = lambda: parse_hashmap_aug(lc.begin_parse(), w, lambda s: s.load_uint(8), lambda s: s.load_uint(8))
            what = 'parse_hashmap_aug'
        else:
            thunk = lambda: HashMap.parse(lc.begin_parse(), w)
            what = 'HashMap.parse'
        ctx.fault('dict-label-longer-than-remaining-key/' + form + ('' if ladder == 'short' else '/ladder-of-' + ladder + '-labels'))
        st, res, steps = metered(budget, thunk)
        ctx.op(op)
        ctx.evaluated(1)
        ctx.tick(steps)
        ctx.obs(st, steps)
        if st == 'budget':
            self.V(ctx, 'budget-exceeded', what, 'label-longer-than-key-over-shared-cells',
                   '%s (key width %d) of %d cells whose label is %d bits with %d key bits left did not finish within %d steps' % (what, w, cells, n, m, budget))

    def shrink_op(self, op):
        return ()
