"""Glue shared by the worlds: calling the library, converting between library cells and RCells."""
from detsim import lib  # noqa: F401  (must come first: selects the repository under test)

from bitarray import bitarray

from pytoniq_core.boc.cell import Cell
from pytoniq_core.boc.builder import Builder
from pytoniq_core.boc.slice import Slice
from pytoniq_core.boc.tvm_bitarray import TvmBitarray
from pytoniq_core.boc.address import Address, ExternalAddress

from refmodel.rcell import RCell, RCellError


def call(fn, *a, **k):
    """Call into the library.  (True, result) or (False, exception)."""
    try:
        return True, fn(*a, **k)
    except Exception as e:  # any library exception is an observable outcome, never a harness error
        return False, e


def call_shallow(fn, *a, **k):
    """call() on a fresh thread, i.e. from the bottom of an (almost) empty interpreter stack.  Whether a recursive library routine
    reaches the interpreter's recursion limit depends on how deep the CALLER already is; the harness is a few dozen frames deep
    and a replay in a fresh interpreter is not, so a run that sits on that edge would not be a function of its trace.  Deep-structure
    histories (ladder maps, deep stacks, near-limit snake strings) make their library calls through here: same depth everywhere."""
    import threading
    box = []

    def run():
        box.append(call(fn, *a, **k))
    t = threading.Thread(target=run)
    t.start()
    t.join()
    if not box:      # the thread died of something call() does not catch (MemoryError ...)
        return False, RuntimeError('library call did not return')
    return box[0]


def to01(bits):
    return bits.to01()


def tvm_bits(s):
    b = TvmBitarray(1023)
    b.extend(bitarray(s))
    return b


def lib_cell_from_rcell(rc, memo=None):
    """Direct construction route: Cell(TvmBitarray, refs, type) bottom-up, sharing preserved."""
    if memo is None:
        memo = {}
    order = []
    seen = set()
    stack = [(rc, False)]
    while stack:
        c, done = stack.pop()
        if done:
            order.append(c)
            continue
        if c.hash in seen or c.hash in memo:
            continue
        seen.add(c.hash)
        stack.append((c, True))
        for r in c.refs:
            stack.append((r, False))
    for c in order:
        if c.hash not in memo:
            memo[c.hash] = Cell(tvm_bits(c.bits), [memo[r.hash] for r in c.refs], c.type if c.special else -1)
    return memo[rc.hash]


def rcell_from_lib(cell, strict=False):
    """Read a library cell tree (bits, refs, type_) into an RCell.  Iterative, memoised by id."""
    memo = {}
    stack = [(cell, False)]
    while stack:
        c, done = stack.pop()
        if id(c) in memo:
            continue
        if done:
            memo[id(c)] = RCell(to01(c.bits), [memo[id(r)] for r in c.refs], c.type_ != -1, strict=strict)
            continue
        stack.append((c, True))
        for r in c.refs:
            if id(r) not in memo:
                stack.append((r, False))
    return memo[id(cell)]


def struct_diff(cell, rc):
    """None if library cell tree == RCell tree (bits, special type, refs recursively), else a path string."""
    memo = set()
    stack = [(cell, rc, '')]
    while stack:
        c, r, path = stack.pop()
        key = (id(c), id(r))
        if key in memo:
            continue
        memo.add(key)
        if to01(c.bits) != r.bits:
            return '%s: bits %s... != %s...' % (path or 'root', to01(c.bits)[:48], r.bits[:48])
        if (c.type_ != -1) != r.special or (r.special and c.type_ != r.type):
            return '%s: type %r != %r' % (path or 'root', c.type_, r.type if r.special else -1)
        if len(c.refs) != len(r.refs):
            return '%s: %d refs != %d' % (path or 'root', len(c.refs), len(r.refs))
        for i, (a, b) in enumerate(zip(c.refs, r.refs)):
            stack.append((a, b, path + '/%d' % i))
    return None


def addr_tuple(a):
    """Comparable form of a library address value."""
    if a is None:
        return None
    if isinstance(a, ExternalAddress):
        return ('ext', a.external_address, a.len)
    if isinstance(a, Address):
        any_ = None
        if getattr(a, 'anycast', None) is not None:
            any_ = (a.anycast.depth, a.anycast.rewrite_pfx)
        return ('std', a.wc, bytes(a.hash_part), any_)
    return ('?', repr(a))
