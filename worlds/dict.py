"""DICT world (C09): set-sequence histories on the mutable HashMap vs a Python dict."""
import hashlib
import itertools

from detsim.core import HistoryWorld, Violation
from refmodel import hashmap as refhm, tlb
from refmodel.rcell import RCellError
from .common import call, call_shallow, to01, Cell, Builder, Slice, Address, tvm_bits

from pytoniq_core.boc.hashmap import HashMap

ROUTES = ['parse', 'load_hashmap', 'from_cell', 'load_dict', 'preload_dict', 'maybe_ref', 'preload_dict_after_ref']


class St:
    pass


class DictWorld(HistoryWorld):
    run_timeout = 20   # slowest legitimate run is well under 0.2 s
    name = 'DICT'
    chunk = 40
    real_code = ['pytoniq_core.boc.hashmap.HashMap (set, set_int_key, serialize, parse, from_cell)', 'pytoniq_core.boc.hashmap.utils (tree building, label writing)',
                 'pytoniq_core.boc.hashmap.parse', 'Builder.store_dict / Slice.load_dict / preload_dict / load_hashmap']
    stubs = ['model: a Python dict', 'reference canonical Hashmap builder used only to decide whether a content is representable at all']

    def __init__(self, prop, tier):
        super().__init__(prop, tier)
        q = tier == 'quick'
        # exhaustive leg: every key subset of widths 1..3 (quick) / 1..4 (thorough), three insertion orders each
        self.widths = [1, 2, 3] if q else [1, 2, 3, 4]
        self.subsets = []
        for w in self.widths:
            for mask in range(1 << (1 << w)):
                self.subsets.append((w, mask))
        self.legs = [('exhaustive', len(self.subsets)), ('main', 12000 if q else 400000), ('ladder', 12 if q else 200)]
        self.budget = {'quick': 100, 'thorough': 1500}
        self.exhaustive = False

    LADDER_DEPTHS = [64, 200, 300, 340, 380, 420, 450, 470, 500, 520, 700, 1022, 256, 320, 360, 400, 440, 460, 480, 600, 800, 1000]

    def get_legs(self):
        return self.legs

    def rule(self):
        return ('Leg exhaustive: EVERY subset of keys for widths %s (2^(2^w) maps each) x 3 insertion orders (ascending, descending, seeded shuffle), all parse routes. '
                'Leg main: seeded histories on one HashMap: set with key forms int/bytes/bit-string/Address/hashed-string, overwrites, rejected keys (too large, negative) in the middle, '
                'then serialise and parse through 6 routes (HashMap.parse, load_hashmap, from_cell, store_dict+load_dict, preload_dict, store_maybe_ref); widths 1..1023 with forced '
                'classes. Oracle: parsed == dict model, ascending key order, hash independent of insertion order, empty <-> None, rejected key leaves the map unchanged. '
                'Non-trivial = map with >= 2 keys or a rejected key; distinct = distinct (op sequence, probe set).' % (self.widths,))

    def assumptions(self):
        return ['(M) fault-free history refinement; the model is a Python dict', 'canonical-form questions (label kinds, tie-breaking) are C10, not applicable here',
                'carve-out: contents the reference builder cannot represent in 1023-bit cells either']

    def make_config(self, rng, leg, run_index):
        if leg == 'exhaustive':
            w, mask = self.subsets[run_index]
            return {'n': w, 'mask': mask, 'vk': ['u16', 'coins', 'cell'][run_index % 3], 'exh': True}
        if leg == 'ladder':
            # 'every finite map': maps whose tree is as deep as the key is wide (one fork per key bit on one path - keys 100..0, 0100..0,
            # 00100..0 ...); the cell chain is d+1 deep and d may be up to 1022
            d = min(1022, self.LADDER_DEPTHS[run_index % len(self.LADDER_DEPTHS)] + (run_index // len(self.LADDER_DEPTHS)))
            return {'n': rng.choice([1023, 1023, max(d + 1, rng.choice([600, 800]))]), 'vk': 'u16', 'steps': d + 4, 'ladder': d, 'kser': False}
        n = rng.choice([1, 2, 3, 4, 5, 7, 8, 9, 16, 31, 32, 33, 64, 255, 256, 257, 267, 512, 1000, 1023, rng.randint(1, 1023)])
        return {'n': n, 'vk': rng.choice(['u16', 'u16', 'coins', 'cell', 'i8', 'u1', 'addr', 'ref3', 'addr_any', 'map']), 'mirror': rng.random() < 0.5, 'steps': rng.choice([4, 8, 16, 40]), 'kser': rng.random() < 0.12}

    def new_state(self, ctx):
        st = St()
        st.n = ctx.cfg['n']
        st.vk = ctx.cfg['vk']
        st.kser = bool(ctx.cfg.get('kser'))
        st.h = None
        st.model = {}
        st.order = []
        st.queue = []
        st.started = False
        return st

    # ---- values ----
    def _mk_hashmap(self, st):
        if st.kser:
            # caller-supplied key serialiser: keys are handed over as 'k<decimal>' texts
            h = HashMap(st.n, key_serializer=lambda k: int(k[1:]))
        else:
            h = HashMap(st.n)
        vk = st.vk
        if vk in ('addr', 'addr_any'):
            h.with_address_values()
        elif vk == 'ref3':
            h.value_serializer = lambda src, dest: dest.store_uint(src & 7, 3).store_ref(Builder().store_uint(src, 16).end_cell())
        elif vk == 'map':
            # a map of maps (e.g. owner -> {token -> balance}): the value serialiser builds and serialises an INNER dictionary
            # while the outer one is being written - the dictionary writer is entered again before it has finished
            def ser_inner(src, dest):
                inner = HashMap(8).with_uint_values(16)
                for k2, v2 in src[1]:
                    inner.set(k2, v2)
                dest.store_uint(src[0], 3).store_dict(inner.serialize())
            h.value_serializer = ser_inner
        if vk == 'u16':
            h.with_uint_values(16)
        elif vk == 'u1':
            h.with_uint_values(1)
        elif vk == 'i8':
            h.with_int_values(8)
        elif vk == 'coins':
            h.with_coins_values()
        return h

    ANY = [None, (3, 5), (3, 2), (1, 1)]

    def _any_addr(self, wc, acc, anycast):
        a = Address((wc, acc))
        if anycast is not None:
            a.set_anycast(*anycast)
        return a

    def _lib_value(self, st, v):
        if st.vk == 'map':
            return self._norm(st, v)
        if st.vk == 'addr_any':
            # addresses of few accounts, with and without anycast info: values that compare equal (Address.__eq__ looks at workchain
            # and account only) and are nevertheless different values with different encodings
            n = self._norm(st, v)
            return self._any_addr(n[1], n[2], n[3])
        if st.vk == 'addr':
            return Address(((v & 0xFF) - 128, hashlib.sha256(b'%d' % v).digest()))
        if st.vk == 'cell':
            return Builder().store_uint(v & 0xFFFF, 16).end_cell()
        if st.vk == 'u1':
            return v & 1
        if st.vk == 'i8':
            return (v & 0xFF) - 128
        return v

    def _norm(self, st, v):
        if st.vk == 'map':
            return (v & 7, tuple(sorted({v & 0xFF: v, (v >> 8) & 0xFF: (v * 7) & 0xFFFF, (v >> 4) & 0xFF: v ^ 0xFFFF}.items())))
        if st.vk == 'addr_any':
            return ('addr', ((v >> 2) & 3) - 1, hashlib.sha256(b'%d' % ((v >> 2) & 7)).digest(), self.ANY[v & 3])
        if st.vk == 'addr':
            return ('addr', (v & 0xFF) - 128, hashlib.sha256(b'%d' % v).digest())
        if st.vk == 'ref3':
            return (v & 7, v)
        if st.vk == 'cell':
            return v & 0xFFFF
        if st.vk == 'u1':
            return v & 1
        if st.vk == 'i8':
            return (v & 0xFF) - 128
        return v

    def _vbits(self, st, v):
        vk = st.vk
        if vk == 'map':
            return tlb.enc_uint(v[0], 3) + '1'
        if vk == 'addr_any':
            return tlb.enc_addr_std(v[1], v[2], v[3])
        if vk == 'addr':     # v is the normalised model value
            return tlb.enc_addr_std(v[1], v[2], None)
        if vk == 'ref3':
            return tlb.enc_uint(v[0], 3)
        if vk in ('u16', 'cell'):
            return tlb.enc_uint(v, 16)
        if vk == 'u1':
            return tlb.enc_uint(v, 1)
        if vk == 'i8':
            return tlb.enc_int(v, 8)
        return tlb.enc_coins(v)

    def _deser(self, st):
        vk = st.vk
        if vk == 'map':
            return lambda s: (s.load_uint(3), tuple(sorted(s.load_dict(8, lambda kb: int(kb, 2), lambda x: x.load_uint(16)).items())))
        if vk == 'addr_any':
            def dza(s):
                a = s.load_address()
                any_ = None if a.anycast is None else (a.anycast.depth, a.anycast.rewrite_pfx)
                return ('addr', a.wc, bytes(a.hash_part), any_)
            return dza
        if vk == 'addr':
            def dz(s):
                a = s.load_address()
                want_wc = a.wc
                # back to the 16-bit model value is impossible (hash); compare by encoding instead
                return ('addr', a.wc, bytes(a.hash_part))
            return dz
        if vk == 'ref3':
            return lambda s: (s.load_uint(3), s.load_ref().begin_parse().load_uint(16))
        if vk in ('u16', 'cell'):
            return lambda s: s.load_uint(16)
        if vk == 'u1':
            return lambda s: s.load_uint(1)
        if vk == 'i8':
            return lambda s: s.load_int(8)
        return lambda s: s.load_coins()

    # ---- generation ----
    def gen_op(self, st, ctx):
        if st.queue:
            return st.queue.pop(0)
        if st.started and ctx.cfg.get('exh'):
            return None
        rng = ctx.rng
        if st.started and ctx.cfg.get('ladder'):
            return None
        if not st.started:
            st.started = True
            if ctx.cfg.get('ladder'):
                d, n = ctx.cfg['ladder'], ctx.cfg['n']
                keys = [1 << (n - 1 - i) for i in range(d)] + [0]
                if rng.random() < 0.5:
                    rng.shuffle(keys)
                st.queue.append({'op': 'new'})
                for k in keys:
                    st.queue.append({'op': 'set', 'form': 'int', 'key': k, 'v': k.bit_length() * 31 & 0xFFFF})
                st.queue.append({'op': 'serialize', 'perm': rng.getrandbits(32), 'routes': ['parse', 'load_hashmap', 'load_dict']})
                return st.queue.pop(0)
            if ctx.cfg.get('exh'):
                n, mask = ctx.cfg['n'], ctx.cfg['mask']
                keys = [k for k in range(1 << n) if (mask >> k) & 1]
                orders = [keys, keys[::-1], rng.sample(keys, len(keys))]
                for o in orders:
                    st.queue.append({'op': 'new'})
                    for k in o:
                        st.queue.append({'op': 'set', 'form': 'int', 'key': k, 'v': (k * 7919 + 13) & 0xFFFF})
                    st.queue.append({'op': 'serialize', 'perm': rng.getrandbits(32), 'routes': ROUTES})
                return st.queue.pop(0)
            return {'op': 'new'}
        n = st.n
        r = rng.random()
        if r < 0.62:
            form = rng.choice(['int', 'int', 'int', 'bytes', 'bits'] + (['address'] if n == 267 else []) + (['hashed'] if n == 256 else []))
            if st.model and rng.random() < 0.3:
                key = rng.choice(sorted(st.model))  # overwrite or prefix-neighbour
                if rng.random() < 0.5:
                    key ^= 1 << rng.randrange(n)
            else:
                mode = rng.random()
                if mode < 0.15:
                    key = rng.choice([0, (1 << n) - 1, 1, 1 << (n - 1)])
                elif mode < 0.4 and st.model:
                    # share a long prefix with an existing key
                    base = rng.choice(sorted(st.model))
                    low = rng.randint(1, min(n, 8))
                    key = (base >> low << low) | rng.getrandbits(low)
                else:
                    key = rng.getrandbits(n)
            op = {'op': 'set', 'form': form, 'key': key, 'v': rng.getrandbits(16)}
            if form == 'hashed':
                op['text'] = 'k%d' % rng.getrandbits(20)
            if form == 'address':
                op['wc'] = rng.randint(-128, 127)
                op['acc'] = bytes(rng.getrandbits(8) for _ in range(32)).hex()
            if st.vk == 'addr_any' and ctx.cfg.get('mirror') and form in ('int', 'bytes', 'bits'):
                # both halves of the dictionary hold the same keys below the first bit, with values that are EQUAL as Python objects
                # (same account) and differ in anycast: two subtrees that look alike and are not
                op['form'] = 'int'
                op['v'] = rng.getrandbits(5)
                twin = dict(op, key=key ^ (1 << (n - 1)), v=(op['v'] & ~3) | ((op['v'] + 1 + rng.randrange(3)) & 3))
                st.queue.append(twin)
                ctx.probe('mirrored-subtrees-with-equal-comparing-values')
            return op
        if r < 0.74:
            kind = rng.choice(['too_large', 'too_large_by_one', 'negative', 'negative_big', 'long_bits', 'long_bytes', 'negative_bits_exact', 'negative_bits_short', 'negative_bits_full'])
            return {'op': 'set_invalid', 'kind': kind, 'x': rng.getrandbits(16), 'v': rng.getrandbits(16)}
        if r < 0.78:
            return {'op': 'new'}
        return {'op': 'serialize', 'perm': rng.getrandbits(32), 'routes': rng.sample(ROUTES, rng.randint(1, len(ROUTES)))}

    # ---- execution ----
    def V(self, ctx, invariant, opkind, klass, msg):
        return ctx.violation(Violation(self.prop, invariant, opkind, klass, msg))

    def apply(self, st, op, ctx):
        getattr(self, 'op_' + op['op'])(st, op, ctx)

    def op_new(self, st, op, ctx):
        st.h = self._mk_hashmap(st)
        st.model = {}
        st.order = []

    def _key_of(self, st, op):
        """(library key argument, kwargs, model int key) for a valid set."""
        n = st.n
        form = op['form']
        key = op['key'] & ((1 << n) - 1)
        if form == 'int':
            return key, {}, key
        if form == 'bytes':
            nb = (n + 7) // 8
            return key.to_bytes(nb, 'big'), {}, key
        if form == 'bits':
            return bin(key)[2:].zfill(n), {}, key
        if form == 'address' and n == 267:
            a = Address((op['wc'], bytes.fromhex(op['acc'])))
            return a, {}, int(tlb.enc_addr_std(op['wc'], bytes.fromhex(op['acc'])), 2)
        if form == 'hashed' and n == 256:
            return op['text'], {'hash_key': True}, int.from_bytes(hashlib.sha256(op['text'].encode()).digest(), 'big')
        return key, {}, key

    def op_set(self, st, op, ctx):
        if st.h is None:
            self.op_new(st, op, ctx)
        karg, kw, mk = self._key_of(st, op)
        if st.kser:
            karg, kw = 'k%d' % mk, {}
            ctx.probe('caller-supplied-key-serialiser')
        v = self._norm(st, op['v'])
        if mk % 2 and not kw:
            ok, r = call(st.h.set, key=karg, value=self._lib_value(st, op['v']))     # keyword spelling
        else:
            ok, r = call(st.h.set, karg, self._lib_value(st, op['v']), **kw)
        if not ok:
            self.V(ctx, 'valid-key-refused', 'set', op['form'], 'set(%s key %d of width %d) raised %r' % (op['form'], mk, st.n, r))
            return
        if mk in st.model:
            ctx.probe('overwrite')
        st.model[mk] = v
        st.order.append(mk)

    def op_set_invalid(self, st, op, ctx):
        if st.h is None:
            self.op_new(st, op, ctx)
        n = st.n
        kind = op['kind']
        x = op['x']
        if kind == 'too_large':
            key = (1 << n) + (x % (1 << n))
        elif kind == 'too_large_by_one':
            key = 1 << n
        elif kind == 'negative':
            key = -1 - (x % min(1 << n, 1 << 16))
        elif kind == 'negative_big':
            key = -(1 << n) - x
        elif kind == 'long_bits':
            key = '1' + bin(x)[2:].zfill(n)[:n]
        elif kind in ('negative_bits_exact', 'negative_bits_short', 'negative_bits_full'):
            # a signed bit string denotes a negative key, whatever its length (sign included) is relative to the width
            m = {'negative_bits_exact': max(n - 1, 1), 'negative_bits_short': max(min(n - 1, 1 + x % 8), 1), 'negative_bits_full': n}[kind]
            key = '-' + bin((x % (1 << min(m, 16))) | 1)[2:].zfill(m)[-m:]
        else:
            key = b'\x01' + bytes((n + 7) // 8)
        if st.kser:
            if not isinstance(key, int):
                return
            key = 'k%d' % key
        before = dict(st.h.map)
        ok, r = call(st.h.set, key, self._lib_value(st, op['v']))
        ctx.probe('rejected-key-' + kind)
        if ok:
            self.V(ctx, 'invalid-key-accepted', 'set', kind, 'key %r does not fit width %d but was accepted (map now has keys %s)'
                   % (key if not isinstance(key, (str, bytes)) else kind, n, sorted(st.h.map)[:6]))
            # re-synchronise: drop whatever it stored
            st.h.map = before
            return
        if st.h.map != before:
            self.V(ctx, 'rejected-key-changed-map', 'set', kind, 'a refused set() changed the map')
            st.h.map = before

    def op_serialize(self, st, op, ctx):
        if st.h is None:
            return
        n = st.n
        model = st.model
        deep = bool(ctx.cfg.get('ladder'))
        docall = call_shallow if deep else call     # deep maps: from the bottom of an empty stack (see call_shallow)
        ok, cell = docall(st.h.serialize)
        if len(model) >= 2:
            ctx.probe('map-with-2+-keys')
        if not model:
            ctx.probe('empty-map')
            if not ok or cell is not None:
                self.V(ctx, 'empty-not-none', 'serialize', 'empty', 'empty map serialises to %r instead of None' % (cell,))
                return
            ok, r = call(lambda: Builder().store_dict(None).end_cell().begin_parse().load_dict(n))
            if not ok or r not in (None, {}):
                self.V(ctx, 'empty-not-none', 'load_dict', 'empty', 'store_dict(None) loads back as %r' % (r,))
            return
        dk = ''
        if ctx.cfg.get('ladder'):
            d = ctx.cfg['ladder']
            dk = '/forks-on-one-path-%s' % ('le300' if d <= 300 else 'le450' if d <= 450 else 'gt450')
            ctx.probe('deep-map' + dk)
        if not ok:
            # representable at all?
            import sys
            lim = sys.getrecursionlimit()
            try:
                sys.setrecursionlimit(12000)     # the reference builder recurses once per tree level (the library call above ran under the normal limit)
                refhm.build_hashmap(model, n, lambda v: (self._vbits(st, v), self._vrefs(st, v)))
            except RCellError:
                ctx.count('carve-out:unrepresentable')
                return
            finally:
                sys.setrecursionlimit(lim)
            self.V(ctx, 'serialise-fails', 'serialize', 'width-%s%s' % (_wclass(n), dk), 'serialize() of %d keys of width %d raised %r' % (len(model), n, cell))
            return
        ctx.evaluated(1)
        want = sorted(model.items())
        dz = self._deser(st)
        for route in op['routes']:
            ok, got = docall(self._parse, st, cell, route, dz)
            if not ok:
                self.V(ctx, 'parse-fails', route, 'width-%s%s' % (_wclass(n), dk), 'parsing the serialised map (%d keys, width %d) via %s raised %r' % (len(model), n, route, got))
                return
            if got is None or sorted(got) != want:
                self.V(ctx, 'roundtrip', route, 'width-%s/keys-%s' % (_wclass(n), _kclass(len(model))),
                       'map of %d keys (width %d) came back via %s as %s, expected %s' % (len(model), n, route, str(sorted(got or []))[:200], str(want)[:200]))
                return
            if [k for k, _ in got] != [k for k, _ in want]:
                self.V(ctx, 'key-order', route, 'width-%s' % _wclass(n), 'keys are not in ascending order via %s: %s' % (route, [k for k, _ in got][:10]))
                return
        # insertion-order independence
        import random
        keys = list(model)
        random.Random(op['perm']).shuffle(keys)
        h2 = self._mk_hashmap(st)
        for k in keys:
            h2.set(('k%d' % k) if st.kser else k, self._lib_value_norm(st, model[k]))
        ok, c2 = docall(h2.serialize)
        if not ok or c2.hash != cell.hash:
            self.V(ctx, 'insertion-order', 'serialize', 'keys-%s' % _kclass(len(model)), 'the same %d entries inserted in another order give a different cell' % len(model))

    def _vrefs(self, st, v):
        if st.vk == 'map':
            return (refhm.build_hashmap(dict(v[1]), 8, lambda x: (tlb.enc_uint(x, 16), ())),)
        if st.vk == 'ref3':
            from refmodel.rcell import RCell
            return (RCell(tlb.enc_uint(v[1], 16)),)
        return ()

    def _lib_value_norm(self, st, v):
        if st.vk == 'addr_any':
            return self._any_addr(v[1], v[2], v[3])
        if st.vk == 'addr':
            return Address((v[1], v[2]))
        if st.vk == 'ref3':
            return v[1]
        if st.vk == 'cell':
            return Builder().store_uint(v, 16).end_cell()
        return v

    def _parse(self, st, cell, route, dz):
        n = st.n
        if st.kser and route in ('parse', 'load_hashmap', 'load_dict', 'preload_dict'):
            # caller-supplied key deserialiser, undone here for the comparison (dict order is kept)
            kd = lambda bits: 'k%d' % int(bits, 2)
            if route == 'parse':
                r = HashMap.parse(cell.begin_parse(), n, kd, dz)
            elif route == 'load_hashmap':
                r = cell.begin_parse().load_hashmap(n, kd, dz)
            elif route == 'load_dict':
                r = Builder().store_dict(cell).store_ref(cell).end_cell().begin_parse().load_dict(n, kd, dz)
            else:
                r = Builder().store_dict(cell).end_cell().begin_parse().preload_dict(n, kd, dz)
            return None if r is None else [(int(k[1:]), v) for k, v in r.items()]
        if route == 'parse':
            r = HashMap.parse(cell.begin_parse(), n, None, dz)
        elif route == 'load_hashmap':
            r = cell.begin_parse().load_hashmap(n, None, dz)
        elif route == 'from_cell':
            hm = HashMap.from_cell(cell, n)
            r = {k: dz(v) for k, v in hm.map.items()}
        elif route == 'load_dict':
            s = Builder().store_dict(cell).end_cell().begin_parse()
            r = s.load_dict(n, None, dz)
            if s.remaining_bits or s.remaining_refs:
                raise AssertionError('load_dict left %d bits %d refs' % (s.remaining_bits, s.remaining_refs))
        elif route == 'preload_dict_after_ref':
            s = Builder().store_ref(Builder().store_uint(9, 4).end_cell()).store_dict(cell).end_cell().begin_parse()
            s.load_ref()
            r = s.preload_dict(n, None, dz)
            if s.remaining_bits != 1 or s.remaining_refs != 1:
                raise AssertionError('preload_dict consumed input')
        elif route == 'preload_dict':
            s = Builder().store_dict(cell).end_cell().begin_parse()
            r = s.preload_dict(n, None, dz)
            if s.remaining_bits != 1 or s.remaining_refs != 1:
                raise AssertionError('preload_dict consumed input')
        else:
            s = Builder().store_maybe_ref(cell).store_uint(5, 3).end_cell().begin_parse()
            r = s.load_dict(n, None, dz)
        return None if r is None else list(r.items())

    def shrink_op(self, op):
        if op['op'] == 'serialize' and len(op['routes']) > 1:
            for r in op['routes']:
                yield dict(op, routes=[r])


def _wclass(n):
    return str(n) if n <= 4 else ('le32' if n <= 32 else ('le256' if n <= 256 else 'le1023'))


def _kclass(k):
    return str(k) if k <= 2 else ('le8' if k <= 8 else 'many')
