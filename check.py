#!/venv/bin/python
"""CLI of the verification machinery.  See DESIGN.md section 10.

  check.py C07 --tier quick            run the check, write evidence/C07.json
  check.py --replay replays/X.json     re-execute a recorded trace (exit 1 if it reproduces)
  check.py C07 --digests 200           print per-run event-log digests (determinism self-test)
Exit: 0 held / only known findings; 1 violation; 2 harness error.
"""
import argparse
import collections
import hashlib
import json
import os
import re
import subprocess
import sys
import time
import traceback

if os.environ.get('PYTHONHASHSEED') is None:
    os.environ['PYTHONHASHSEED'] = '0'
    os.environ['PYTHONDONTWRITEBYTECODE'] = '1'
    os.execv(sys.executable, [sys.executable] + sys.argv)

HERE = os.path.dirname(os.path.abspath(__file__))
if HERE not in sys.path:
    sys.path.insert(0, HERE)

from detsim import core  # noqa: E402

WORLDS = {
    'C01': ('worlds.pool', 'PoolWorld'),
    'C03': ('worlds.pool', 'PoolWorld'),
    'C08': ('worlds.pool', 'PoolWorld'),
    'C06': ('worlds.build', 'BuildWorld'),
    'C07': ('worlds.build', 'BuildWorld'),
    'C09': ('worlds.dict', 'DictWorld'),
    'C17': ('worlds.vm', 'VmWorld'),
    'C05': ('worlds.wire', 'BocWireWorld'),
    'C13': ('worlds.wire', 'AddrWireWorld'),
    'C14': ('worlds.tl', 'TlWorld'),
    'C11': ('worlds.chain', 'ProofWorld'),
    'C12': ('worlds.chain', 'SigWorld'),
    'C20': ('worlds.adnl', 'AdnlWorld'),
    'C19': ('worlds.work', 'WorkWorld'),
}

LEVELS = {'C05': 'fault_enumeration', 'C13': 'fault_enumeration'}


def make_world(prop, tier):
    import importlib
    from detsim import lib  # noqa: F401  (puts the repo under test on sys.path)
    mod, cls = WORLDS[prop]
    return getattr(importlib.import_module(mod), cls)(prop, tier)


def do_replay(path):
    with open(path) as f:
        doc = json.load(f)
    flags = doc.get('interpreter_flags') or []
    if flags and not sys.flags.optimize:
        # recorded under an interpreter started with -O / -OO: replay it the same way
        os.execv(sys.executable, [sys.executable] + flags + [os.path.abspath(__file__), '--replay', path])
    world = make_world(doc['property'], doc.get('tier', 'quick'))
    core.run_prelude(world, doc.get('prelude'))
    v = core.replay_ops(world, doc.get('leg', 'main'), doc['config'], doc['ops'], strict=True)
    if v is None:
        print('REPLAY-CLEAN property=%s file=%s' % (doc['property'], path))
        return 0
    print('SIGNATURE %s' % v['signature'])
    print('step %s: %s' % (v['step'], v['message']))
    print('VIOLATION property=%s replay=%s' % (doc['property'], path))
    return 1


def main():
    ap = argparse.ArgumentParser()
    ap.add_argument('prop', nargs='?')
    ap.add_argument('--tier', default=os.environ.get('VERIF_TIER', 'quick'), choices=['quick', 'thorough'])
    ap.add_argument('--replay')
    ap.add_argument('--budget-s', type=float)
    ap.add_argument('--workers', type=int, default=int(os.environ.get('VERIF_WORKERS', '0')) or min(16, os.cpu_count() or 1))
    ap.add_argument('--max-runs', type=int)
    ap.add_argument('--leg')
    ap.add_argument('--digests', type=int)
    ap.add_argument('--no-evidence', action='store_true')
    args = ap.parse_args()

    if args.replay:
        return do_replay(args.replay)
    if args.prop not in WORLDS:
        print('HARNESS-ERROR: unknown or not-applicable property %r' % args.prop)
        return 2
    verif_seed = int(os.environ.get('VERIF_SEED', '0') or 0)
    t0 = time.time()

    from refmodel import selftest
    bad = selftest.run(verbose=False)
    if bad:
        print('HARNESS-ERROR: reference-model self-test failed: %s' % bad)
        return 2

    world = make_world(args.prop, args.tier)
    from detsim import lib
    known, all_findings = core.load_known()
    known = {s: e for s, e in known.items() if e['property'] == args.prop}
    budget = args.budget_s or (getattr(world, 'budget', {}).get(args.tier) or (120 if args.tier == 'quick' else 1500))

    if args.digests:
        res, skipped, wall = core.run_batch(world, verif_seed, args.workers, 1e9, known, max_runs=args.digests, only_leg=args.leg)
        h = hashlib.sha256()
        for r in res:
            if 'harness_error' in r:
                print(r['harness_error'])
                return 2
            h.update((r['leg'] + str(r['run_index']) + r['log_digest']).encode())
        print('DIGEST %s runs=%d' % (h.hexdigest(), len(res)))
        return 0

    try:
        res, skipped, wall = core.run_batch(world, verif_seed, args.workers, budget, known, max_runs=args.max_runs, only_leg=args.leg)
    except core.HarnessError as e:
        print('HARNESS-ERROR: %s' % e)
        return 2
    herr = [r for r in res if 'harness_error' in r]
    if herr:
        print('HARNESS-ERROR in run %s/%s:\n%s' % (herr[0]['leg'], herr[0]['run_index'], herr[0]['harness_error']))
        return 2

    # ---- violations ----
    by_sig = collections.OrderedDict()
    for r in res:
        if r['violation']:
            by_sig.setdefault(r['violation']['signature'], []).append(r)
    commit = lib.repo_commit()
    new_violations = []
    min_budget = 30 if args.tier == 'quick' else 180
    total_deadline = time.time() + (75 if args.tier == 'quick' else 900)
    # hangs are the most expensive to minimise (every candidate may cost the wall backstop): do them last
    ordered = sorted(by_sig.items(), key=lambda kv: '/no-result/' in kv[0])
    extra = []
    dismissed = set()
    for sig, rs in ordered:
        r = min(rs, key=lambda x: x['n_ops'])
        if len(new_violations) >= 6 or (new_violations and time.time() > total_deadline):
            # reported with its unminimised trace
            path = core.write_replay(world, r, r['ops'], r['violation'], len(r['ops']), verif_seed, commit)
            extra.append((sig, path, len(rs)))
            continue
        ops, tests, reproduced = core.minimise(world, r['leg'], r['cfg'], r['ops'], sig, budget_s=min_budget)
        prelude = None
        if not reproduced:
            # not reproducible alone: does it depend on the runs executed before it in the same process?
            cands = sorted((x for x in rs if x.get('chunk_prefix')), key=lambda x: len(x['chunk_prefix']))
            for x in cands[:3]:
                pre = core.minimise_prelude(world, x['leg'], x['cfg'], x['ops'], sig, {'leg': x['leg'], 'indices': x['chunk_prefix'], 'verif_seed': verif_seed}, budget_s=min_budget)
                if pre is not None:
                    r, prelude = x, pre
                    ops, tests, reproduced = core.minimise(world, r['leg'], r['cfg'], r['ops'], sig, budget_s=min_budget, prelude=prelude)
                    break
        if not reproduced and '/no-result/timeout' in sig:
            # a wall-clock backstop that fired once and does not fire again when the same trace is executed is the machine (an
            # overloaded or stalled host), not the code under test: a genuine hang hangs again.  Reported, not counted.
            print('NOTE: run %s/%d hit its wall-clock backstop once (%s) and completes normally when its trace is executed again: machine load, not counted' % (r['leg'], r['run_index'], sig))
            dismissed.add(sig)
            continue
        if not reproduced:
            print('HARNESS-ERROR: violation %s of run %s/%d does not reproduce from its own trace' % (sig, r['leg'], r['run_index']))
            return 2
        v = core.replay_isolated(world, r['leg'], r['cfg'], ops, prelude)
        if prelude:
            v['message'] = ('[appears only after generated runs %s of leg %s were executed earlier in the same process: state is kept between unrelated calls] '
                            % (prelude['indices'], prelude['leg'])) + v['message']
        path = core.write_replay(world, r, ops, v, len(r['ops']), verif_seed, commit, prelude)
        if not os.environ.get('VERIF_NO_CONFIRM'):
            ok, out = core.confirm_in_fresh_interpreter(path, sig)
            if not ok:
                print('HARNESS-ERROR: minimised replay %s does not reproduce in a fresh interpreter:\n%s' % (path, out))
                return 2
        new_violations.append((sig, path, v, len(rs)))

    # known findings that were hit (the run continued past them)
    known_seen = collections.Counter()
    for r in res:
        for k, n in r['counters'].items():
            if k.startswith('known:'):
                known_seen[k[6:]] += n
    for sig, n in sorted(known_seen.items()):
        print('KNOWN-FINDING: property=%s %s (%s; hit %d times)' % (args.prop, known[sig].get('what', sig), sig, n))
    for sig, e in sorted(known.items()):
        if sig not in known_seen:
            print('NOTE: listed known finding %s was not reproduced in this run' % sig)

    for sig, path, v, n in new_violations:
        print('SIGNATURE %s (%d runs)' % (sig, n))
        print('  step %s: %s' % (v['step'], v['message'][:600]))
        print('VIOLATION property=%s replay=%s' % (args.prop, path))
    for sig, path, n in extra:
        print('SIGNATURE %s (%d runs, trace not minimised)' % (sig, n))
        print('VIOLATION property=%s replay=%s' % (args.prop, path))

    # ---- deployment pass: the first runs of every leg once more in an interpreter started with -O (assert statements stripped) ----
    deploy = None
    if not sys.flags.optimize and not os.environ.get('VERIF_NO_DEPLOY_PASS') and not args.max_runs and not args.leg:
        n_dep = 150 if args.tier == 'quick' else 3000
        cmd = [sys.executable, '-O', os.path.abspath(__file__), args.prop, '--tier', args.tier, '--no-evidence', '--max-runs', str(n_dep),
               '--budget-s', str(25 if args.tier == 'quick' else 240), '--workers', str(args.workers)]
        p = subprocess.run(cmd, capture_output=True, text=True, timeout=3600)
        m = re.search(r': (\d+) runs \((\d+) skipped\), (\d+) evaluations', p.stdout)
        deploy = {'interpreter_flags': ['-O'], 'exit': p.returncode, 'runs': int(m.group(1)) if m else 0, 'evaluations': int(m.group(3)) if m else 0,
                  'what': 'the first %d runs of every leg executed again in an interpreter started with -O' % n_dep}
        if p.returncode not in (0, 1):
            print('HARNESS-ERROR: deployment pass (-O) failed:\n%s' % (p.stdout[-1500:] + p.stderr[-1500:]))
            return 2
        dep_lines = [l for l in p.stdout.splitlines() if l.startswith(('SIGNATURE ', '  step ', 'VIOLATION '))]
        for l in dep_lines:
            print(l)
        if p.returncode == 1:
            by_sig.setdefault('deployment-pass', []).append(None)

    # ---- evidence ----
    counters = collections.Counter()
    shapes = set()
    evals = 0
    ticks = 0
    for r in res:
        counters.update(r['counters'])
        evals += r['evals']
        ticks += r['ticks']
        if r['nontrivial']:
            shapes.add(r['shape'])
    wall_total = time.time() - t0
    samples = [{'leg': r['leg'], 'run_index': r['run_index'], 'run_seed': r['run_seed'], 'config': r['cfg'], 'ops': r['sample_ops']}
               for r in res if 'sample_ops' in r][:3]
    if not samples:
        samples = [{'leg': r['leg'], 'run_index': r['run_index'], 'ops': r.get('ops', [])[:20]} for r in res[:1]]
    level = LEVELS.get(args.prop, 'exploration')
    per_leg = collections.Counter(r['leg'] for r in res)
    ev = {
        'property_id': args.prop, 'tier': args.tier, 'seed': verif_seed, 'level': level,
        'wall_s': round(wall_total, 2), 'violations': len(set(by_sig) - dismissed),
        'coverage': {
            'evaluations': int(evals),
            'distinct_nontrivial': len(shapes),
            'rule': world.rule(),
            'samples': samples,
            'exhaustive': bool(getattr(world, 'exhaustive', False)),
            'runs': len(res), 'runs_per_leg': dict(per_leg), 'runs_skipped_at_deadline': skipped,
            'runs_per_hour': int(len(res) / max(wall, 1e-6) * 3600), 'workers': args.workers,
            'simulated_ticks': int(ticks),
            'operations_by_kind': {k[3:]: v for k, v in sorted(counters.items()) if k.startswith('op:')},
            'faults_fired_by_kind': {k[6:]: v for k, v in sorted(counters.items()) if k.startswith('fault:')},
            'probes_hit': {k[6:]: v for k, v in sorted(counters.items()) if k.startswith('probe:')},
            'other_counters': {k: v for k, v in sorted(counters.items()) if not k.startswith(('op:', 'fault:', 'probe:', 'known:'))},
            'known_findings_hit': dict(known_seen),
            'real_code': world.real_code, 'stubs': world.stubs,
            'world': world.name, 'repo_commit': commit, 'python_hash_seed': os.environ.get('PYTHONHASHSEED'),
            'model_selftest': 'passed',
            'deployment_pass': deploy,
        },
        'assumptions': world.assumptions(),
    }
    if not args.no_evidence:
        os.makedirs(core.EVIDENCE_DIR, exist_ok=True)
        with open(os.path.join(core.EVIDENCE_DIR, args.prop + '.json'), 'w') as f:
            json.dump(ev, f, indent=1, sort_keys=True, default=str)
    print('%s %s: %d runs (%d skipped), %d evaluations, %d distinct non-trivial shapes, %.1fs, %d violation signatures, %d known'
          % (args.prop, args.tier, len(res), skipped, evals, len(shapes), wall_total, len(by_sig), len(known_seen)))
    return 1 if (set(by_sig) - dismissed) else 0


if __name__ == '__main__':
    try:
        rc = main()
    except SystemExit:
        raise
    except BaseException:
        traceback.print_exc()
        print('HARNESS-ERROR: unexpected exception')
        rc = 2
    sys.stdout.flush()
    os._exit(rc)
