"""Discrete-event core and faulty media.  Ticks matter only for delivery order; nothing reads a real clock."""
import heapq


class Sim:
    def __init__(self, rng, ctx):
        self.rng = rng
        self.ctx = ctx
        self.now = 0
        self.seq = 0
        self.q = []

    def after(self, delay, fn, *args):
        self.seq += 1
        heapq.heappush(self.q, (self.now + delay, self.seq, fn, args))

    def run(self, max_events=100000):
        n = 0
        while self.q and n < max_events:
            t, _, fn, args = heapq.heappop(self.q)
            self.ctx.tick(t - self.now)
            self.now = t
            fn(*args)
            n += 1
        return n


class Net:
    """Datagram net with a seeded fault policy.  deliver(dst, payload, meta) is called per arrival."""

    def __init__(self, sim, policy, deliver):
        self.sim = sim
        self.p = dict(policy)
        self.deliver = deliver
        self.healed = False

    def heal(self):
        self.healed = True

    def send(self, dst, payload, meta=None):
        rng, p, ctx = self.sim.rng, self.p, self.sim.ctx
        if not self.healed:
            if rng.random() < p.get('drop', 0):
                ctx.fault('drop')
                return
        delay = 1 + (0 if self.healed else rng.randrange(1 + p.get('jitter', 0)))
        if not self.healed and p.get('jitter', 0) and delay > 1:
            ctx.fault('delay')
        data = payload
        if not self.healed and isinstance(payload, (bytes, bytearray)) and payload and rng.random() < p.get('flip', 0):
            b = bytearray(payload)
            i = rng.randrange(len(b) * 8)
            b[i // 8] ^= 0x80 >> (i % 8)
            data = bytes(b)
            ctx.fault('bitflip')
            meta = dict(meta or {}, flipped=i)
        self.sim.after(delay, self.deliver, dst, data, meta)
        if not self.healed and rng.random() < p.get('dup', 0):
            ctx.fault('duplicate')
            self.sim.after(delay + 1 + rng.randrange(1 + p.get('jitter', 0)), self.deliver, dst, data, dict(meta or {}, dup=True))
