"""The simulated step clock: executed source lines of the package under test are the only notion of time.

sys.settrace based; a budget overrun raises BudgetExceeded (a BaseException, so library `except Exception`
blocks cannot swallow it) from inside the trace function, which aborts the library call at once.
"""
import sys

from detsim import lib


class BudgetExceeded(BaseException):
    pass


class StepClock:
    def __init__(self, budget, prefix=None):
        self.n = 0
        self.budget = budget
        self.prefix = prefix or lib.PKG_DIR
        self.exceeded = False

    def _local(self, frame, event, arg):
        if event == 'line':
            self.n += 1
            if self.n > self.budget:
                self.exceeded = True
                raise BudgetExceeded()
        return self._local

    def _global(self, frame, event, arg):
        if frame.f_code.co_filename.startswith(self.prefix):
            return self._local
        return None

    def __enter__(self):
        self._old = sys.gettrace()
        sys.settrace(self._global)
        return self

    def __exit__(self, *a):
        sys.settrace(self._old)
        return False


def metered(budget, fn, *a, **k):
    """-> (status, result, steps); status in 'ok' | 'raised' | 'budget'."""
    clk = StepClock(budget)
    try:
        with clk:
            r = fn(*a, **k)
        return 'ok', r, clk.n
    except BudgetExceeded:
        return 'budget', None, clk.n
    except RecursionError as e:
        return 'raised', e, clk.n
    except Exception as e:
        return 'raised', e, clk.n
