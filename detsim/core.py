"""Run context, violations, seeds, minimisation and the parallel batch driver."""
import collections
import concurrent.futures
import faulthandler
import hashlib
import json
import multiprocessing
import os
import pickle
import random
import signal
import subprocess
import sys
import time
import traceback

VERIF_DIR = os.path.dirname(os.path.dirname(os.path.abspath(__file__)))
REPLAY_DIR = os.path.join(VERIF_DIR, 'replays')
EVIDENCE_DIR = os.path.join(VERIF_DIR, 'evidence')
KNOWN_FILE = os.path.join(VERIF_DIR, 'known_findings.json')
RUN_TIMEOUT_S = int(os.environ.get('VERIF_RUN_TIMEOUT_S', '60'))
STOP_AFTER = int(os.environ.get('VERIF_STOP_AFTER', '48'))


class Violation(Exception):
    """A property's statement is violated by the real code."""

    def __init__(self, prop, invariant, opkind, klass, message, detail=None):
        super().__init__(message)
        self.prop = prop
        self.invariant = invariant
        self.opkind = opkind
        self.klass = klass
        self.message = message
        self.detail = detail
        self.step = None

    @property
    def signature(self):
        return '%s/%s/%s/%s' % (self.prop, self.invariant, self.opkind, self.klass)

    def to_json(self):
        return {'signature': self.signature, 'step': self.step, 'message': self.message[:2000]}


class HarnessError(Exception):
    pass


class StopRun(Exception):
    """The world ends the current run early (not a failure)."""


class RunTimeout(BaseException):
    """Wall-clock backstop fired inside a run: the library did not return."""


def run_timeout(world, leg=None):
    """Wall-clock backstop per run (a hang is reported as no-result/timeout): the world's own figure - at least
    100x the slowest legitimate run - unless VERIF_RUN_TIMEOUT_S overrides it."""
    if os.environ.get('VERIF_RUN_TIMEOUT_S'):
        return RUN_TIMEOUT_S
    if leg is not None and hasattr(world, 'run_timeout_for'):
        return int(world.run_timeout_for(leg))
    return int(getattr(world, 'run_timeout', RUN_TIMEOUT_S))


def run_seed(verif_seed, world, leg, run_index):
    h = hashlib.sha256(('%d/%s/%s/%d' % (verif_seed, world, leg, run_index)).encode()).digest()
    return int.from_bytes(h[:8], 'big')


def load_known():
    """known_findings.json -> ({signature: entry} for status 'known', all entries)."""
    try:
        with open(KNOWN_FILE) as f:
            data = json.load(f)
    except FileNotFoundError:
        return {}, []
    known = {e['signature']: e for e in data.get('findings', []) if e.get('status') == 'known'}
    return known, data.get('findings', [])


class Ctx:
    """Everything a run may touch: its PRNG, its trace, its counters.  Never reads a clock."""

    def __init__(self, prop, tier, leg, cfg, rng=None, known=(), strict=False):
        self.prop = prop
        self.tier = tier
        self.leg = leg
        self.cfg = cfg
        self.rng = rng
        self.ops = []
        self.counters = collections.Counter()
        self._log = hashlib.sha256()
        self.ticks = 0
        self.known = known
        self.strict = strict
        self.known_hits = []
        self.kinds = []
        self.nontrivial = False
        self.evals = 0

    def op(self, op):
        self.ops.append(op)
        k = op.get('op', '?')
        self.counters['op:' + k] += 1
        self.kinds.append(k)
        self._log.update(json.dumps(op, sort_keys=True, default=str).encode())

    def obs(self, *values):
        """Observation of the system under test, folded into the event-log digest."""
        for v in values:
            self._log.update(repr(v).encode())
            self._log.update(b'|')

    def tag(self, *values):
        """Shape information of the run (enters the distinct-shape digest, not the trace)."""
        self.kinds.extend(str(v) for v in values)

    def fault(self, kind, n=1):
        self.counters['fault:' + kind] += n
        self.nontrivial = True

    def probe(self, name, n=1):
        self.counters['probe:' + name] += n
        self.nontrivial = True

    def count(self, name, n=1):
        self.counters[name] += n

    def evaluated(self, n=1):
        self.evals += n

    def tick(self, n=1):
        self.ticks += n

    def violation(self, v):
        """Raise v unless its signature is a listed known finding (then record it and return)."""
        v.step = len(self.ops) - 1
        if not self.strict and v.signature in self.known:
            self.known_hits.append(v.to_json())
            self.counters['known:' + v.signature] += 1
            return False
        raise v

    def log_digest(self):
        return self._log.hexdigest()

    def shape_digest(self):
        faults = sorted((k, min(v, 3)) for k, v in self.counters.items() if k.startswith(('fault:', 'probe:')))
        return hashlib.sha256(json.dumps([self.kinds, faults]).encode()).hexdigest()[:16]


class World:
    """Base class.  A world serves one or more properties; `prop` selects the oracle."""
    name = 'WORLD'
    legs = {'quick': [('main', 100)], 'thorough': [('main', 1000)]}
    real_code = []
    stubs = []

    def __init__(self, prop, tier):
        self.prop = prop
        self.tier = tier

    def get_legs(self):
        return self.legs[self.tier]

    def make_config(self, rng, leg, run_index):
        return {}

    def run(self, ctx):
        raise NotImplementedError

    def replay(self, ctx, ops):
        raise NotImplementedError

    def shrink_op(self, op):
        return ()


class HistoryWorld(World):
    """Worlds whose run is a sequence of generated operations applied to library + model."""

    def new_state(self, ctx):
        raise NotImplementedError

    def n_steps(self, ctx):
        return ctx.cfg.get('steps', 40)

    def gen_op(self, st, ctx):
        raise NotImplementedError

    def apply(self, st, op, ctx):
        raise NotImplementedError

    def finish(self, st, ctx):
        pass

    def run(self, ctx):
        st = self.new_state(ctx)
        try:
            for _ in range(self.n_steps(ctx)):
                op = self.gen_op(st, ctx)
                if op is None:
                    break
                ctx.op(op)
                self.apply(st, op, ctx)
            self.finish(st, ctx)
        except StopRun:
            pass

    def replay(self, ctx, ops):
        st = self.new_state(ctx)
        try:
            for op in ops:
                ctx.op(op)
                self.apply(st, op, ctx)
            self.finish(st, ctx)
        except StopRun:
            pass


# --------------------------------------------------------------------------------------
# single run / replay
# --------------------------------------------------------------------------------------

def _alarm(signum, frame):
    raise RunTimeout()


def execute(world, leg, run_index, verif_seed, known):
    """One simulated run.  Returns a JSON-able summary."""
    seed = run_seed(verif_seed, world.name + ':' + world.prop, leg, run_index)
    rng = random.Random(seed)
    cfg = world.make_config(rng, leg, run_index)
    ctx = Ctx(world.prop, world.tier, leg, cfg, rng, known)
    viol = None
    old = signal.signal(signal.SIGALRM, _alarm)
    signal.alarm(run_timeout(world, leg))
    try:
        world.run(ctx)
    except Violation as v:
        if v.step is None:
            v.step = len(ctx.ops) - 1
        viol = v.to_json()
    except RunTimeout:
        viol = {'signature': '%s/no-result/timeout/%s' % (world.prop, ctx.kinds[-1] if ctx.kinds else 'start'),
                'step': len(ctx.ops) - 1, 'message': 'library call did not return within %d s' % run_timeout(world, leg)}
    finally:
        signal.alarm(0)
        signal.signal(signal.SIGALRM, old)
    out = {
        'leg': leg, 'run_index': run_index, 'run_seed': '%016x' % seed, 'cfg': cfg,
        'n_ops': len(ctx.ops), 'evals': ctx.evals or len(ctx.ops), 'counters': dict(ctx.counters),
        'log_digest': ctx.log_digest(), 'shape': ctx.shape_digest(), 'nontrivial': ctx.nontrivial,
        'ticks': ctx.ticks, 'violation': viol, 'known_hits': ctx.known_hits[:3],
    }
    if viol is not None:
        out['ops'] = ctx.ops
    elif run_index < 2:
        out['sample_ops'] = ctx.ops[:30]
    return out


def replay_ops(world, leg, cfg, ops, strict=True, known=()):
    """Execute a recorded list (no PRNG).  Returns violation json or None."""
    ctx = Ctx(world.prop, world.tier, leg, cfg, None, known, strict)
    old = signal.signal(signal.SIGALRM, _alarm)
    signal.alarm(run_timeout(world, leg))
    try:
        world.replay(ctx, ops)
    except Violation as v:
        if v.step is None:
            v.step = len(ctx.ops) - 1
        return v.to_json()
    except RunTimeout:
        return {'signature': '%s/no-result/timeout/%s' % (world.prop, ctx.kinds[-1] if ctx.kinds else 'start'),
                'step': len(ctx.ops) - 1, 'message': 'library call did not return within %d s' % run_timeout(world, leg)}
    finally:
        signal.alarm(0)
        signal.signal(signal.SIGALRM, old)
    return None


def run_prelude(world, prelude):
    """Re-create the process history a violation depended on: execute the named generated runs first."""
    if not prelude:
        return
    for i in prelude['indices']:
        try:
            execute(world, prelude['leg'], i, prelude['verif_seed'], set())
        except Exception:
            pass


def replay_isolated(world, leg, cfg, ops, prelude=None, strict=True):
    """replay_ops in a forked child, so that hidden process state (module globals, class attributes, default
    arguments of the library) left behind by one replay cannot influence the next.  Returns violation json or None;
    raises HarnessError if the child died."""
    r, w = os.pipe()
    pid = os.fork()
    if pid == 0:
        code = 0
        try:
            os.close(r)
            try:
                run_prelude(world, prelude)
                v = replay_ops(world, leg, cfg, ops, strict=strict)
                data = json.dumps({'v': v}).encode()
            except BaseException:
                data = json.dumps({'err': traceback.format_exc()[-3000:]}).encode()
            with os.fdopen(w, 'wb') as f:
                f.write(data)
        except BaseException:
            code = 3
        finally:
            os._exit(code)
    os.close(w)
    with os.fdopen(r, 'rb') as f:
        data = f.read()
    os.waitpid(pid, 0)
    if not data:
        raise HarnessError('isolated replay died without a result')
    doc = json.loads(data)
    if 'err' in doc:
        raise HarnessError('isolated replay raised:\n' + doc['err'])
    return doc['v']


# --------------------------------------------------------------------------------------
# minimisation
# --------------------------------------------------------------------------------------

def minimise(world, leg, cfg, ops, signature, budget_s=60, prelude=None):
    """ddmin over the op list, then per-op shrinking; keeps only candidates with the same signature.
    Every candidate is executed in its own forked process."""
    deadline = time.monotonic() + budget_s
    tests = [0]

    def fails(cand):
        tests[0] += 1
        try:
            v = replay_isolated(world, leg, cfg, cand, prelude)
        except Exception:
            return False  # a sub-list the harness cannot execute is simply not a candidate
        return v is not None and v['signature'] == signature

    if not fails(ops):
        return ops, tests[0], False
    cur = list(ops)
    # drop everything after the failing step first
    v = replay_isolated(world, leg, cfg, cur, prelude)
    if v and v['step'] is not None and v['step'] + 1 < len(cur):
        cand = cur[:v['step'] + 1]
        if fails(cand):
            cur = cand
    n = 2
    while len(cur) >= 2 and time.monotonic() < deadline:
        chunk = max(1, len(cur) // n)
        reduced = False
        for i in range(0, len(cur), chunk):
            cand = cur[:i] + cur[i + chunk:]
            if cand and fails(cand):
                cur = cand
                n = max(n - 1, 2)
                reduced = True
                break
            if time.monotonic() > deadline:
                break
        if not reduced:
            if chunk == 1:
                break
            n = min(len(cur), n * 2)
    # per-op shrinking
    changed = True
    while changed and time.monotonic() < deadline:
        changed = False
        for i in range(len(cur)):
            try:
                simpler_ops = list(world.shrink_op(cur[i]))
            except Exception:
                simpler_ops = []
            for simpler in simpler_ops:
                cand = cur[:i] + [simpler] + cur[i + 1:]
                if fails(cand):
                    cur = cand
                    changed = True
                    break
            if time.monotonic() > deadline:
                break
    return cur, tests[0], True


def minimise_prelude(world, leg, cfg, ops, signature, prelude, budget_s=60):
    """The violation needs earlier runs of the same process: find a small set of them (drop-one-chunk ddmin)."""
    deadline = time.monotonic() + budget_s

    def fails(idx):
        try:
            v = replay_isolated(world, leg, cfg, ops, dict(prelude, indices=idx))
        except Exception:
            return False
        return v is not None and v['signature'] == signature

    cur = list(prelude['indices'])
    if not fails(cur):
        return None
    n = 2
    while len(cur) >= 2 and time.monotonic() < deadline:
        chunk = max(1, len(cur) // n)
        reduced = False
        for i in range(0, len(cur), chunk):
            cand = cur[:i] + cur[i + chunk:]
            if fails(cand):
                cur = cand
                n = max(n - 1, 2)
                reduced = True
                break
            if time.monotonic() > deadline:
                break
        if not reduced:
            if chunk == 1:
                break
            n = min(len(cur), n * 2)
    return dict(prelude, indices=cur)


def write_replay(world, summary, ops, violation, minimised_from, verif_seed, repo_commit, prelude=None):
    os.makedirs(REPLAY_DIR, exist_ok=True)
    doc = {
        'format': 1, 'property': world.prop, 'world': world.name, 'tier': world.tier, 'leg': summary['leg'],
        'verif_seed': verif_seed, 'run_index': summary['run_index'], 'run_seed': summary['run_seed'],
        'config': summary['cfg'], 'ops': ops, 'violation': violation,
        'minimised_from': minimised_from, 'repo_commit': repo_commit,
    }
    if sys.flags.optimize:
        # found by the deployment pass: the interpreter was started with -O (assert statements stripped); --replay restarts itself so
        doc['interpreter_flags'] = ['-O'] if sys.flags.optimize == 1 else ['-OO']
        doc['violation'] = dict(violation, message='[interpreter started with %s] ' % doc['interpreter_flags'][0] + violation['message'])
    if prelude:
        # the violation appears only after these generated runs were executed in the same process (hidden state between calls)
        doc['prelude'] = prelude
    tag = hashlib.sha256(json.dumps([violation['signature'], ops], sort_keys=True, default=str).encode()).hexdigest()[:10]
    path = os.path.join(REPLAY_DIR, '%s-%d-%s-%d-%s.json' % (world.prop, verif_seed, summary['leg'], summary['run_index'], tag))
    with open(path, 'w') as f:
        json.dump(doc, f, indent=1, sort_keys=True, default=str)
    return path


def confirm_in_fresh_interpreter(path, signature):
    """Replay the file in a fresh process; it must fail the same way (exit 1 + same signature)."""
    env = dict(os.environ)
    env['VERIF_NO_CONFIRM'] = '1'
    p = subprocess.run([sys.executable, os.path.join(VERIF_DIR, 'check.py'), '--replay', path],
                       capture_output=True, text=True, env=env, timeout=600)
    ok = p.returncode == 1 and ('SIGNATURE ' + signature) in p.stdout
    return ok, p.stdout[-2000:] + p.stderr[-2000:]


# --------------------------------------------------------------------------------------
# batch driver
# --------------------------------------------------------------------------------------

_WORLD = None
_KNOWN = None
_SEED = None


def _chunk_body(args):
    leg, indices, chunk_timeout = args
    faulthandler.dump_traceback_later(chunk_timeout, exit=True)
    try:
        out = []
        hangs = 0
        for k, i in enumerate(indices):
            try:
                r = execute(_WORLD, leg, i, _SEED, _KNOWN)
                if r.get('violation'):
                    r['chunk_prefix'] = list(indices[:k])
                    if '/no-result/timeout/' in r['violation']['signature']:
                        hangs += 1
                out.append(r)
                if hangs >= 2:
                    break   # the library hangs on this tree: the rest of the chunk would only burn the wall backstop
            except Exception:
                out.append({'leg': leg, 'run_index': i, 'harness_error': traceback.format_exc()})
        return out
    finally:
        faulthandler.cancel_dump_traceback_later()


def _chunk(args):
    """Every chunk of runs executes in a process forked from a parent that has imported the library but never called
    it: what a run can observe of earlier runs is exactly the earlier runs of its own chunk, whatever the worker count
    or scheduling, so a dependence on hidden process state is itself replayable (see 'prelude')."""
    leg, indices, chunk_timeout = args
    r, w = os.pipe()
    pid = os.fork()
    if pid == 0:
        code = 0
        try:
            os.close(r)
            out = _chunk_body(args)
            with os.fdopen(w, 'wb') as f:
                f.write(pickle.dumps(out))
        except BaseException:
            code = 3
        finally:
            os._exit(code)
    os.close(w)
    with os.fdopen(r, 'rb') as f:
        data = f.read()
    _, status = os.waitpid(pid, 0)
    if not data:
        return [{'leg': leg, 'run_index': indices[0], 'harness_error': 'the process running chunk %s/%s.. died or hung (wait status %r)' % (leg, indices[0], status)}]
    return pickle.loads(data)


def run_batch(world, verif_seed, workers, budget_s, known, max_runs=None, only_leg=None):
    """Runs every leg of the world's plan in parallel.  Returns list of summaries in run order."""
    global _WORLD, _KNOWN, _SEED
    _WORLD, _KNOWN, _SEED = world, set(known), verif_seed
    t0 = time.monotonic()
    deadline = t0 + budget_s
    plan = []
    for leg, n in world.get_legs():
        if only_leg and leg != only_leg:
            continue
        if max_runs is not None:
            n = min(n, max_runs)
        per = max(1, min(getattr(world, 'chunk', 25), (n + 63) // 64))   # independent of the worker count
        starts = list(range(0, n, per))
        for k, s in enumerate(starts):
            plan.append(((k + 0.5) / len(starts), len(plan), (leg, list(range(s, min(n, s + per))), run_timeout(world, leg) * per + 120)))
    # the legs advance together (chunks ordered by their relative position within their leg): when a slow or busy machine reaches
    # the wall budget, every leg has lost its tail proportionally instead of the last legs being skipped altogether
    plan = [a for _, _, a in sorted(plan, key=lambda t: (t[0], t[1]))]
    results = []
    skipped = 0
    n_viol = 0   # once enough failing runs exist, no further chunks are started (a failing tree need not be explored to the end)
    if workers <= 1:
        for a in plan:
            if time.monotonic() > deadline:
                skipped += len(a[1])
                continue
            results.extend(_chunk(a))
    else:
        ctxmp = multiprocessing.get_context('fork')
        with concurrent.futures.ProcessPoolExecutor(max_workers=workers, mp_context=ctxmp) as ex:
            pending = {}
            it = iter(plan)
            done_iter = False
            try:
                while True:
                    while not done_iter and len(pending) < workers * 2:
                        try:
                            a = next(it)
                        except StopIteration:
                            done_iter = True
                            break
                        if time.monotonic() > deadline or n_viol >= STOP_AFTER:
                            skipped += len(a[1])
                            continue
                        pending[ex.submit(_chunk, a)] = a
                    if not pending:
                        break
                    done, _ = concurrent.futures.wait(pending, return_when=concurrent.futures.FIRST_COMPLETED)
                    for f in done:
                        pending.pop(f)
                        rs = f.result()
                        n_viol += sum(1 for r in rs if r.get('violation'))
                        results.extend(rs)
            except concurrent.futures.process.BrokenProcessPool as e:
                raise HarnessError('worker died or hung: %r' % (e,))
    legs_order = {leg: i for i, (leg, _) in enumerate(world.get_legs())}
    results.sort(key=lambda r: (legs_order.get(r['leg'], 0), r['run_index']))
    return results, skipped, time.monotonic() - t0
