"""Puts the repository under test first on sys.path and verifies that it is the one imported."""
import os
import sys

REPO = os.path.realpath(os.environ.get('VERIF_REPO', '/repo'))

if REPO not in sys.path[:1]:
    sys.path.insert(0, REPO)
sys.dont_write_bytecode = True

import pytoniq_core  # noqa: E402

_f = os.path.realpath(pytoniq_core.__file__)
if not _f.startswith(REPO + os.sep):
    raise SystemExit('HARNESS-ERROR: pytoniq_core imported from %s, not from %s' % (_f, REPO))

PKG_DIR = os.path.dirname(_f)


def repo_commit():
    import subprocess
    try:
        out = subprocess.run(['git', '-C', REPO, 'rev-parse', '--short', 'HEAD'], capture_output=True, text=True, timeout=10)
        dirty = subprocess.run(['git', '-C', REPO, 'status', '--porcelain', '--untracked-files=no'], capture_output=True, text=True, timeout=10)
        return out.stdout.strip() + ('+dirty' if dirty.stdout.strip() else '')
    except Exception:
        return 'unknown'
