"""Deterministic-simulation kernel for pytoniq-core (see /verif/DESIGN.md section 3)."""
