"""Reference VmStack encoder/decoder (block.tlb: VmStack, VmStackValue, VmTuple, VmCellSlice, VmCont).

Model values (JSON-able, hashes as hex):
  None | int | ('cell', RCell) | ('slice', RCell remaining-content) | ('builder', RCell content)
  | ('tuple', [values]) | ('cont', {'t': kind, ...})
"""
from .rcell import RCell
from .tlb import enc_uint, enc_int, dec_uint, dec_int


class VmModelError(Exception):
    pass


def enc_value(v):
    """-> (bits, refs) of one VmStackValue."""
    if v is None:
        return '00000000', []
    if isinstance(v, int):
        if -(1 << 63) <= v < (1 << 63):
            return '00000001' + enc_int(v, 64), []
        return '000000100000000' + enc_int(v, 257), []
    k = v[0]
    if k == 'cell':
        return '00000011', [v[1]]
    if k == 'builder':
        return '00000101', [v[1]]
    if k == 'slice':
        c = v[1]
        return '00000100' + enc_uint(0, 10) + enc_uint(len(c.bits), 10) + enc_uint(0, 3) + enc_uint(len(c.refs), 3), [c]
    if k == 'tuple':
        b, r = enc_tuple(v[1])
        return '00000111' + enc_uint(len(v[1]), 16) + b, r
    if k == 'cont':
        b, r = enc_cont(v[1])
        return '00000110' + b, r
    raise VmModelError(k)


def value_cell(v):
    b, r = enc_value(v)
    return RCell(b, r)


def enc_tuple(items):
    """VmTuple n -> (bits, refs)."""
    n = len(items)
    if n == 0:
        return '', []
    head = items[:-1]
    tail = value_cell(items[-1])
    if len(head) == 0:
        return '', [tail]
    if len(head) == 1:
        return '', [value_cell(head[0]), tail]
    hb, hr = enc_tuple(head)
    return '', [RCell(hb, hr), tail]


def enc_cdata(cd):
    bits = ''
    refs = []
    if cd.get('nargs') is not None:
        bits += '1' + enc_uint(cd['nargs'], 13)
    else:
        bits += '0'
    if cd.get('stack') is not None:
        # stack:(Maybe VmStack), inline: depth:(## 24) stack:(VmStackList depth)
        sc = enc_stack(cd['stack'])
        bits += '1' + sc.bits
        refs += list(sc.refs)
    else:
        bits += '0'
    if cd.get('save'):
        # save:VmSaveList = cregs:(HashmapE 4 VmStackValue)
        from . import hashmap
        root = hashmap.build_hashmap(dict(cd['save']), 4, lambda v: tuple(enc_value(v)))
        bits += '1'
        refs.append(root)
    else:
        bits += '0'
    if cd.get('cp') is not None:
        bits += '1' + enc_int(cd['cp'], 16)
    else:
        bits += '0'
    return bits, refs


def enc_cont(c):
    t = c['t']

    def ref(x):
        b, r = enc_cont(x)
        return RCell(b, r)
    if t == 'quit':
        return '1000' + enc_int(c['exit_code'], 32), []
    if t == 'quit_exc':
        return '1001', []
    if t == 'repeat':
        return '10100' + enc_uint(c['count'], 63), [ref(c['body']), ref(c['after'])]
    if t == 'until':
        return '110000', [ref(c['body']), ref(c['after'])]
    if t == 'again':
        return '110001', [ref(c['body'])]
    if t in ('while_cond', 'while_body'):
        return ('110010' if t == 'while_cond' else '110011'), [ref(c['cond']), ref(c['body']), ref(c['after'])]
    if t == 'pushint':
        return '1111' + enc_int(c['value'], 32), [ref(c['next'])]
    if t == 'std':
        b, r = enc_cdata(c['cdata'])
        code = c['code']
        return '00' + b + enc_uint(0, 10) + enc_uint(len(code.bits), 10) + enc_uint(0, 3) + enc_uint(len(code.refs), 3), r + [code]
    if t == 'envelope':
        b, r = enc_cdata(c['cdata'])
        return '01' + b, r + [ref(c['next'])]
    raise VmModelError(t)


def enc_stack(values):
    """vm_stack#_ depth:(## 24) stack:(VmStackList depth).  Iterative: stacks may be as deep as a cell chain (1023)."""
    if not values:
        return RCell(enc_uint(0, 24))
    rest = RCell('')
    for v in values[:-1]:
        b, r = enc_value(v)
        rest = RCell(b, [rest] + r)
    b, r = enc_value(values[-1])
    return RCell(enc_uint(len(values), 24) + b, [rest] + r)


# ---- decoder (slice-tolerant: any valid VmCellSlice window) ----

class _R:
    def __init__(self, cell):
        self.bits = cell.bits
        self.refs = list(cell.refs)
        self.p = 0
        self.r = 0

    def take(self, n):
        if self.p + n > len(self.bits):
            raise VmModelError('underflow')
        b = self.bits[self.p:self.p + n]
        self.p += n
        return b

    def ref(self):
        if self.r >= len(self.refs):
            raise VmModelError('ref underflow')
        c = self.refs[self.r]
        self.r += 1
        return c

    def done(self):
        return self.p == len(self.bits) and self.r == len(self.refs)


def dec_stack(cell):
    rd = _R(cell)
    depth = dec_uint(rd.take(24))
    out = _dec_list(rd, depth)
    if not rd.done():
        raise VmModelError('trailing data in stack cell')
    return out


def _dec_list(rd, n):
    if n == 0:
        return []
    readers = []
    for _ in range(n):
        readers.append(rd)
        rd = _R(rd.ref())
    if not rd.done():
        raise VmModelError('trailing data in the nil cell')
    out = []
    for k, r in enumerate(reversed(readers)):
        out.append(dec_value(r))
        if k < n - 1 and not r.done():
            raise VmModelError('trailing data in list cell')
    return out


def dec_value(rd):
    tag = rd.take(8)
    if tag == '00000000':
        return None
    if tag == '00000001':
        return dec_int(rd.take(64))
    if tag == '00000010':
        nxt = rd.take(7)
        if nxt == '0000000':
            return dec_int(rd.take(257))
        raise VmModelError('nan or bad int tag')
    if tag == '00000011':
        return ('cell', rd.ref())
    if tag == '00000101':
        return ('builder', rd.ref())
    if tag == '00000100':
        return ('slice', _dec_slice(rd))
    if tag == '00000111':
        n = dec_uint(rd.take(16))
        return ('tuple', _dec_tuple(rd, n))
    if tag == '00000110':
        return ('cont', _dec_cont(rd))
    raise VmModelError('bad value tag ' + tag)


def _dec_slice(rd):
    c = rd.ref()
    sb, eb = dec_uint(rd.take(10)), dec_uint(rd.take(10))
    sr, er = dec_uint(rd.take(3)), dec_uint(rd.take(3))
    if not (sb <= eb <= len(c.bits) and sr <= er <= len(c.refs) and er <= 4):
        raise VmModelError('bad slice window')
    return RCell(c.bits[sb:eb], c.refs[sr:er])


def _dec_tuple(rd, n):
    if n == 0:
        return []
    if n == 1:
        head = []
    elif n == 2:
        r = _R(rd.ref())
        head = [dec_value(r)]
        if not r.done():
            raise VmModelError('trailing data')
    else:
        r = _R(rd.ref())
        head = _dec_tuple(r, n - 1)
        if not r.done():
            raise VmModelError('trailing data')
    r = _R(rd.ref())
    tail = dec_value(r)
    if not r.done():
        raise VmModelError('trailing data')
    return head + [tail]


def _dec_cdata(rd):
    cd = {'nargs': None, 'cp': None, 'stack': None, 'save': None}
    if rd.take(1) == '1':
        cd['nargs'] = dec_uint(rd.take(13))
    if rd.take(1) == '1':
        depth = dec_uint(rd.take(24))
        cd['stack'] = _dec_list(rd, depth)
    if rd.take(1) == '1':
        from . import hashmap
        try:
            raw = hashmap.parse_hashmap(rd.ref(), 4)
        except (ValueError, IndexError) as e:
            raise VmModelError('bad save list: %r' % (e,))
        cd['save'] = {}
        for kb, (vb, vr) in raw.items():
            r2 = _R(RCell(vb, vr))
            cd['save'][int(kb, 2)] = dec_value(r2)
            if not r2.done():
                raise VmModelError('trailing data in save-list value')
    if rd.take(1) == '1':
        cd['cp'] = dec_int(rd.take(16))
    return cd


def _dec_cont(rd):
    def sub():
        r = _R(rd.ref())
        c = _dec_cont(r)
        if not r.done():
            raise VmModelError('trailing data in cont')
        return c
    t2 = rd.take(2)
    if t2 == '00':
        cd = _dec_cdata(rd)
        return {'t': 'std', 'cdata': cd, 'code': _dec_slice(rd)}
    if t2 == '01':
        cd = _dec_cdata(rd)
        return {'t': 'envelope', 'cdata': cd, 'next': sub()}
    t4 = t2 + rd.take(2)
    if t4 == '1000':
        return {'t': 'quit', 'exit_code': dec_int(rd.take(32))}
    if t4 == '1001':
        return {'t': 'quit_exc'}
    if t4 == '1111':
        return {'t': 'pushint', 'value': dec_int(rd.take(32)), 'next': sub()}
    if t4 == '1010':
        if rd.take(1) != '0':
            raise VmModelError('bad cont tag')
        return {'t': 'repeat', 'count': dec_uint(rd.take(63)), 'body': sub(), 'after': sub()}
    t6 = t4 + rd.take(2)
    if t6 == '110000':
        return {'t': 'until', 'body': sub(), 'after': sub()}
    if t6 == '110001':
        return {'t': 'again', 'body': sub()}
    if t6 in ('110010', '110011'):
        return {'t': 'while_cond' if t6 == '110010' else 'while_body', 'cond': sub(), 'body': sub(), 'after': sub()}
    raise VmModelError('bad cont tag ' + t6)


def norm(v):
    """Comparable form of a model value."""
    if v is None or isinstance(v, int):
        return v
    k = v[0]
    if k in ('cell', 'builder'):
        return (k, v[1].hash.hex())
    if k == 'slice':
        return (k, v[1].bits, tuple(r.hash.hex() for r in v[1].refs))
    if k == 'tuple':
        return (k, tuple(norm(x) for x in v[1]))
    if k == 'cont':
        return (k, norm_cont(v[1]))
    raise VmModelError(k)


def norm_cdata(cd):
    st = cd.get('stack')
    sv = cd.get('save')
    return (('cp', cd.get('cp')), ('nargs', cd.get('nargs')),
            ('save', tuple(sorted((int(k), norm(v)) for k, v in sv.items())) if sv else None),
            ('stack', tuple(norm(x) for x in st) if st is not None else None))


def norm_cont(c):
    out = {}
    for kk, vv in c.items():
        if isinstance(vv, dict) and 't' in vv:
            out[kk] = norm_cont(vv)
        elif isinstance(vv, RCell):
            out[kk] = ('slice', vv.bits, tuple(r.hash.hex() for r in vv.refs))
        elif isinstance(vv, dict):
            out[kk] = norm_cdata(vv)
        else:
            out[kk] = vv
    return tuple(sorted(out.items(), key=lambda x: x[0]))
