"""Synthetic shard states / blocks / Merkle proofs on RCell, and the reference proof verifier.

Written from block.tlb; no pytoniq_core import.  Only the skeleton the proof checks touch is modelled.
"""
from .rcell import RCell, RCellError, pruned_of, merkle_proof_of, merkle_update_of, MPROOF, PRUNED, bytes_to_bits
from .tlb import enc_uint, enc_int, enc_coins, enc_bytes, enc_var_uint, enc_addr_std, dec_uint
from . import hashmap


def rbits(rng, n):
    return bin(rng.getrandbits(n) | (1 << n))[3:] if n else ''


def currency(grams, extra=None):
    """CurrencyCollection bits when there are no extra currencies; with `extra` ({currency id: amount}, non-empty)
    returns (bits, (dictionary cell,)): other:ExtraCurrencyCollection = HashmapE 32 (VarUInteger 32)."""
    if not extra:
        return enc_coins(grams) + '0'
    d = hashmap.build_hashmap({k: v for k, v in extra.items()}, 32, lambda v: (enc_var_uint(v, 5), ()))
    return enc_coins(grams) + '1', (d,)


def _rand_extra(rng):
    return {rng.choice([1, 2, 239, 2 ** 31, 2 ** 32 - 1, rng.getrandbits(32)]): rng.choice([1, 255, 256, rng.getrandbits(64) + 1]) for _ in range(rng.choice([1, 1, 2, 5]))}


def _add_extra(a, b):
    out = dict(a)
    for k, v in b.items():
        out[k] = out.get(k, 0) + v
    return out


def make_account(rng, wc, account_id, extra_currencies=False):
    """account$1 addr storage_stat storage  (uninit / frozen / active with code+data)."""
    bits = '1' + enc_addr_std(wc, account_id)
    # StorageUsed cells bits public_cells (VarUInteger 7 each; public_cells is 0 for nearly every real account, any value is legal)
    bits += enc_var_uint(rng.randint(1, 50), 3) + enc_var_uint(rng.randint(1, 5000), 3) + enc_var_uint(rng.choice([0, 0, 1, 255, 256, 1000, rng.getrandbits(40)]), 3)
    bits += enc_uint(rng.getrandbits(32), 32)                                                                  # last_paid
    bits += ('1' + enc_coins(rng.getrandbits(rng.choice([1, 30, 100])))) if rng.random() < 0.3 else '0'       # due_payment:(Maybe Grams)
    bits += enc_uint(rng.getrandbits(48), 64)                                                                   # last_trans_lt
    refs = []
    if extra_currencies and rng.random() < 0.5:
        cb, refs0 = currency(rng.getrandbits(40), _rand_extra(rng))                                             # balance with extra currencies: its dictionary is the FIRST reference
        bits += cb
        refs = list(refs0)
    else:
        bits += currency(rng.getrandbits(40))
    kind = rng.choice(['uninit', 'frozen', 'active', 'active'])
    if kind == 'uninit':
        bits += '00'
    elif kind == 'frozen':
        bits += '01' + rbits(rng, 256)
    else:
        code = RCell(rbits(rng, rng.choice([8, 80, 500])), [RCell(rbits(rng, 64))] if rng.random() < 0.5 else [])
        data = RCell(rbits(rng, rng.choice([0, 32, 321])), [RCell(rbits(rng, 100), [RCell(rbits(rng, 9))])] if rng.random() < 0.5 else [])
        bits += '1'                                                                                           # account_active
        bits += ('1' + enc_uint(rng.choice([0, 1, 30, 31, rng.getrandbits(5)]), 5)) if rng.random() < 0.3 else '0'   # split_depth:(Maybe (## 5))
        bits += ('1' + rng.choice(['00', '01', '10', '11'])) if rng.random() < 0.3 else '0'                          # special:(Maybe TickTock)
        bits += '1' + '1' + '0'                                                                                # code, data, no library
        refs = refs + [code, data]
    return RCell(bits, refs)


def make_state_init(rng):
    """_ split_depth:(Maybe (## 5)) special:(Maybe TickTock) code:(Maybe ^Cell) data:(Maybe ^Cell) library:(HashmapE 256 SimpleLib)"""
    bits = ''
    refs = []
    if rng.random() < 0.3:
        bits += '1' + enc_uint(rng.getrandbits(5), 5)
    else:
        bits += '0'
    if rng.random() < 0.3:
        bits += '1' + rng.choice(['00', '01', '10', '11'])
    else:
        bits += '0'
    for _ in range(3):
        if rng.random() < 0.6:
            bits += '1'
            refs.append(RCell(rbits(rng, rng.choice([0, 8, 77, 500])), [RCell(rbits(rng, 16))] if rng.random() < 0.3 else []))
        else:
            bits += '0'
    return RCell(bits, refs)


def make_message(rng, extra_currencies=True):
    """message$_ info:CommonMsgInfo init:(Maybe (Either StateInit ^StateInit)) body:(Either X ^X) - every header kind,
    inline and referenced state-init and body, optional extra currencies, anycast on internal addresses."""
    def addr_int():
        any_ = (rng.randint(1, 30),) if rng.random() < 0.2 else None
        if any_:
            any_ = (any_[0], rng.getrandbits(any_[0]))
        return enc_addr_std(rng.choice([0, -1, rng.randint(-128, 127)]), bytes(rng.getrandbits(8) for _ in range(32)), any_)

    def addr_ext():
        if rng.random() < 0.5:
            return '00'
        n = rng.choice([1, 8, 64, 256, 511])
        return '01' + enc_uint(n, 9) + enc_uint(rng.getrandbits(n), n)
    refs = []
    kind = rng.choice(['int', 'int', 'ext_in', 'ext_out'])
    if kind == 'int':
        bits = '0' + rbits(rng, 3) + addr_int() + addr_int()
        if extra_currencies and rng.random() < 0.3:
            cb, crefs = currency(rng.getrandbits(rng.choice([0, 8, 60, 120])), _rand_extra(rng))
            bits += cb
            refs += list(crefs)
        else:
            bits += currency(rng.getrandbits(rng.choice([0, 8, 60, 120])))
        bits += enc_coins(rng.getrandbits(rng.choice([0, 16, 64]))) + enc_coins(rng.getrandbits(rng.choice([0, 16, 64])))
        bits += enc_uint(rng.getrandbits(64), 64) + enc_uint(rng.getrandbits(32), 32)
    elif kind == 'ext_in':
        bits = '10' + addr_ext() + addr_int() + enc_coins(rng.getrandbits(rng.choice([0, 16, 64])))
    else:
        bits = '11' + addr_int() + addr_ext() + enc_uint(rng.getrandbits(64), 64) + enc_uint(rng.getrandbits(32), 32)
    r = rng.random()
    if r < 0.5:
        bits += '0'
    else:
        si = make_state_init(rng)
        if r < 0.75 and len(bits) + 2 + len(si.bits) + 1 <= 1023 and len(refs) + len(si.refs) <= 3:
            bits += '10' + si.bits
            refs += list(si.refs)
        else:
            bits += '11'
            refs.append(si)
    room = 1023 - len(bits) - 1
    body = RCell(rbits(rng, rng.choice([0, 1, 32, 300, 700, 1023])), [RCell(rbits(rng, 8))] * rng.choice([0, 0, 1, 2]))
    if len(body.bits) <= room and len(refs) + len(body.refs) <= 4 and rng.random() < 0.7:
        bits += '0' + body.bits
        refs += list(body.refs)
    elif len(refs) < 4:
        bits += '1'
        refs.append(body)
    else:
        bits += '0'
    return RCell(bits, refs)


def make_shard_state(rng, accounts, wc=0, extra_currencies=False):
    """accounts: {int key: Account RCell}.  Returns the ShardStateUnsplit root.
    extra_currencies: some leaves carry a non-empty ExtraCurrencyCollection in their DepthBalanceInfo, so the leaf cell
    holds the extra dictionary BEFORE the account reference, and every fork above it holds the summed dictionary as its
    third reference (ahmn_fork left:^ right:^ extra:Y)."""
    def sd():
        # split_depth:(#<= 30) of DepthBalanceInfo: 0 in most real states, any value up to 30 in a valid one
        return enc_uint(rng.choice([0, 0, 0, 1, 29, 30, 30, rng.randint(0, 30)]), 5)

    def leaf(acc):
        bal = rng.getrandbits(30)
        xc = _rand_extra(rng) if extra_currencies and rng.random() < 0.5 else {}
        val = rbits(rng, 256) + enc_uint(rng.getrandbits(40), 64)
        if xc:
            cb, crefs = currency(bal, xc)
            return sd() + cb + val, tuple(crefs) + (acc,), (bal, xc)
        return sd() + currency(bal) + val, (acc,), (bal, xc)

    def fork_extra(l, r):
        s = (l[0] + r[0], _add_extra(l[1], r[1]))
        if s[1]:
            cb, crefs = currency(s[0], s[1])
            return s, sd() + cb, tuple(crefs)
        return s, sd() + currency(s[0])
    if accounts:
        items = {bin(k)[2:].zfill(256): v for k, v in accounts.items()}
        root, total = hashmap.build_edge(items, 256, leaf, fork_extra)
        if total[1]:
            cb, crefs = currency(total[0], total[1])
            acc_cell = RCell('1' + sd() + cb, (root,) + tuple(crefs))
        else:
            acc_cell = RCell('1' + sd() + currency(total[0]), (root,))
    else:
        acc_cell = RCell('0' + sd() + currency(0))
    bits = '9023afe2'
    bits = bytes_to_bits(bytes.fromhex(bits))
    bits += enc_int(-239, 32)
    pfx = rng.choice([0, 0, 1, 59, 60, rng.randint(0, 60)])       # shard_pfx_bits:(#<= 60)
    bits += '00' + enc_uint(pfx, 6) + enc_int(wc, 32) + enc_uint(rng.getrandbits(64) if pfx else 0, 64)
    bits += enc_uint(rng.getrandbits(24), 32) + enc_uint(rng.choice([0, 0, 1, rng.getrandbits(31)]), 32) + enc_uint(rng.getrandbits(31), 32) + enc_uint(rng.getrandbits(48), 64) + enc_uint(rng.getrandbits(24), 32)
    out_q = RCell(rbits(rng, 64), [RCell(rbits(rng, 12))])
    bits += rng.choice('01')  # before_split
    # ^[ overload_history underload_history total_balance total_validator_fees libraries:(HashmapE 256 LibDescr) master_ref:(Maybe BlkMasterInfo) ]
    tb = enc_uint(rng.choice([0, rng.getrandbits(64)]), 64) + enc_uint(rng.choice([0, 2 ** 64 - 1, rng.getrandbits(64)]), 64)
    tb += currency(rng.getrandbits(50)) + currency(rng.getrandbits(20))
    trefs = []
    if rng.random() < 0.3:
        libs = {rng.getrandbits(256): i for i in range(rng.choice([1, 2, 3]))}
        trefs.append(hashmap.build_hashmap(libs, 256, lambda v: (enc_uint(0, 2) + '1', (RCell(enc_uint(v, 8)), RCell('1' + rbits(rng, 300))))))
        tb += '1'
    else:
        tb += '0'
    if rng.random() < 0.5:
        tb += '1' + enc_uint(rng.getrandbits(64), 64) + enc_uint(rng.getrandbits(32), 32) + rbits(rng, 512)     # master_info: ExtBlkRef
    else:
        tb += '0'
    third = RCell(tb, trefs)
    bits += '0'  # custom: nothing
    return RCell(bits, (out_q, acc_cell, third))


def make_block(rng, old_state_hash_cell, new_state, partial=False):
    """block#11ef55aa global_id info:^ value_flow:^ state_update:^(MERKLE_UPDATE ShardState) extra:^
    partial: the update keeps the changed part of both states and prunes the rest at level 1 (as real blocks do)."""
    info = RCell(rbits(rng, 600), [RCell(rbits(rng, 300)), RCell(rbits(rng, 100))])
    vf = RCell(rbits(rng, 400), [RCell(rbits(rng, 50))])
    if partial:
        upd = merkle_update_of(partially_pruned(rng, old_state_hash_cell, 0.5), partially_pruned(rng, new_state, 0.7))
    else:
        upd = merkle_update_of(pruned_of(old_state_hash_cell, 1), pruned_of(new_state, 1))
    extra = RCell(rbits(rng, 200), [RCell(rbits(rng, 30), [RCell(rbits(rng, 8))]), RCell(rbits(rng, 77))])
    bits = bytes_to_bits(bytes.fromhex('11ef55aa')) + enc_int(-239, 32)
    return RCell(bits, (info, vf, upd, extra))


def random_tree(rng, n):
    cells = []
    for i in range(n):
        k = rng.choice([0, 1, 2, 2, 3, 4]) if cells else 0
        refs = [cells[rng.randrange(len(cells))] for _ in range(k)]
        try:
            cells.append(RCell(rbits(rng, rng.choice([0, 1, 8, 100, 1023, rng.randint(0, 600)])), refs))
        except RCellError:
            cells.append(RCell(rbits(rng, 17)))
    return cells[-1]


# ---- path addressing inside a tree: tuple of ref indices -------------------------------------------------

def subtrees(root, avoid_special_below=True):
    """All (path, cell) below root (root itself excluded); does not descend into special cells."""
    out = []
    stack = [((), root)]
    while stack:
        path, c = stack.pop()
        if path:
            out.append((path, c))
        if c.special and avoid_special_below:
            continue
        for i, r in enumerate(c.refs):
            stack.append((path + (i,), r))
    return out


def is_merkle(c):
    return c.special and c.type in (3, 4)


def subtrees_md(root):
    """All (path, cell, merkle depth) below root, descending THROUGH Merkle proof/update cells (each adds one to the
    depth of everything below it) but not below pruned-branch or library cells."""
    out = []
    stack = [((), root, 0)]
    while stack:
        path, c, d = stack.pop()
        if path:
            out.append((path, c, d))
        if c.special and not is_merkle(c):
            continue
        nd = d + (1 if is_merkle(c) else 0)
        for i, r in enumerate(c.refs):
            stack.append((path + (i,), r, nd))
    return out


def prune_paths_md(root, paths):
    """Level-aware pruning: a subtree at merkle depth d (d Merkle cells between it and the root) is replaced by a
    pruned branch of level d+1, as an outer proof over a tree that already contains Merkle cells must do."""
    paths = set(p for p in paths if not any(q != p and p[:len(q)] == q for q in paths))

    def rec(c, path, d):
        if path in paths:
            return pruned_of(c, d + 1) if c.mask < (1 << d) else c
        if not any(p[:len(path)] == path for p in paths):
            return c
        nd = d + (1 if is_merkle(c) else 0)
        return RCell(c.bits, [rec(r, path + (i,), nd) for i, r in enumerate(c.refs)], c.special, strict=False)
    return rec(root, (), 0)


def partially_pruned(rng, tree, frac, base=0):
    """The tree with a seeded subset of its subtrees replaced by pruned branches, as the author of a Merkle proof /
    update whose content this tree is would leave it.  `base` = number of Merkle cells between that author's proof
    cell (exclusive) and this tree; a subtree d Merkle cells below the tree root is pruned at level base+d+1, and only
    if its own level is lower than that."""
    cand = [p for p, c, d in subtrees_md(tree) if not (c.special and not is_merkle(c)) and c.mask < (1 << (base + d)) and base + d + 1 <= 3]
    chosen = set(p for p in cand if rng.random() < frac)
    chosen = set(p for p in chosen if not any(q != p and p[:len(q)] == q for q in chosen))

    def rec(c, path, d):
        if path in chosen:
            return pruned_of(c, base + d + 1)
        if not any(p[:len(path)] == path for p in chosen):
            return c
        nd = d + (1 if is_merkle(c) else 0)
        return RCell(c.bits, [rec(r, path + (i,), nd) for i, r in enumerate(c.refs)], c.special, strict=False)
    return rec(tree, (), 0)


def random_tree_with_merkle(rng, n, nest=1):
    """An ordinary tree that embeds Merkle proof / update cells whose contents are partially pruned.  With nest=2 the
    content of an embedded Merkle cell may itself embed Merkle cells (and its author pruned below them at level 2), so
    that an outer proof over the whole tree reaches level 3 and pruned branches whose masks have gaps (0b110, 0b101)."""
    def content():
        k = max(2, n // 2)
        if nest >= 2 and rng.random() < 0.6:
            return random_tree_with_merkle(rng, k, nest - 1)
        return random_tree(rng, k)

    def inner():
        if rng.random() < 0.5:
            return merkle_proof_of(partially_pruned(rng, content(), rng.choice([0.2, 0.5])))
        return merkle_update_of(partially_pruned(rng, content(), rng.choice([0.2, 0.5, 1.0])),
                                partially_pruned(rng, content(), rng.choice([0.2, 0.5])))
    mid = RCell(rbits(rng, rng.choice([0, 9, 200])), (inner(), random_tree(rng, max(1, n // 3))))
    refs = [mid, random_tree(rng, max(1, n // 3))]
    if rng.random() < 0.4:
        refs.append(inner())
    rng.shuffle(refs)
    return RCell(rbits(rng, rng.choice([1, 33, 500])), refs)


def rebuild(root, edits):
    """Return a copy of the tree with {path: new RCell or callable(old)->RCell} applied (paths are disjoint)."""
    def rec(c, path):
        if path in edits:
            e = edits[path]
            return e(c) if callable(e) else e
        if not any(p[:len(path)] == path for p in edits):
            return c
        return RCell(c.bits, [rec(r, path + (i,)) for i, r in enumerate(c.refs)], c.special, strict=False)
    return rec(root, ())


def prune_paths(root, paths):
    """Replace the subtrees at `paths` (disjoint, none an ancestor of another) by pruned branches."""
    edits = {}
    for p in sorted(paths):
        if any(q != p and p[:len(q)] == q for q in paths):
            continue
        edits[p] = lambda c: pruned_of(c, 1) if c.mask == 0 else c
    return rebuild(root, edits)


def leaf_account_index(leaf_cell, pos):
    """Index of the account reference in a ShardAccounts leaf: DepthBalanceInfo (5 bits, Grams, Maybe ^dict) comes first and
    owns the first reference when extra currencies are present.  pos = bit position after the label."""
    bits = leaf_cell.bits
    pos += 5
    n = int(bits[pos:pos + 4], 2)
    pos += 4 + 8 * n
    return 1 if bits[pos] == '1' else 0


def account_path(state_root, key, to_account=False):
    """Path of ref indices from the state root to the ShardAccount leaf cell of `key` (256-bit int)."""
    path = (1, 0)
    acc_cell = state_root.refs[1]
    if acc_cell.bits[0] != '1':
        return None
    cell = acc_cell.refs[0]
    kb = bin(key)[2:].zfill(256)
    n = 256
    pos_key = 0
    while True:
        label, pos = hashmap.parse_label(cell.bits, 0, n)
        if kb[pos_key:pos_key + len(label)] != label:
            return None
        pos_key += len(label)
        n -= len(label)
        if n == 0:
            return path + (leaf_account_index(cell, pos),) if to_account else path
        b = int(kb[pos_key])
        path = path + (b,)
        cell = cell.refs[b]
        pos_key += 1
        n -= 1


# ---- reference verifier (the statement of C11, applied to the tree actually received) -----------------------

class NotProved(Exception):
    pass


def is_mproof(c):
    return c.special and c.type == MPROOF and len(c.bits) == 280 and len(c.refs) == 1


def verify_generic(root, expected_hash):
    """Does `root` prove `expected_hash`?  Raises NotProved with the reason if not."""
    if not is_mproof(root):
        raise NotProved('not a Merkle proof cell')
    stored = root.data_bytes()[1:33]
    if stored != expected_hash:
        raise NotProved('stored hash differs from the expected hash')
    if root.refs[0].hash_at(0) != expected_hash:
        raise NotProved('level-0 hash of the proved tree differs')
    return True


def verify_header(block_cell, block_hash):
    if block_cell.hash_at(0) != block_hash:
        raise NotProved('block hash mismatch')
    return True


def state_hash_of_block(block_cell):
    try:
        return block_cell.refs[2].refs[1].hash_at(0)
    except IndexError:
        raise NotProved('block has no state update')


def find_account_cell(state_root, key):
    """Reference walk of the (partially pruned) ShardAccounts dictionary.  Returns the Account cell (maybe pruned)."""
    if state_root.special:
        raise NotProved('state root is not an ordinary cell')
    try:
        acc_cell = state_root.refs[1]
        if acc_cell.special or acc_cell.bits[0] != '1':
            raise NotProved('accounts dictionary empty or pruned')
        cell = acc_cell.refs[0]
        kb = bin(key)[2:].zfill(256)
        n, pk = 256, 0
        while True:
            if cell.special:
                raise NotProved('path to the account is pruned')
            label, pos = hashmap.parse_label(cell.bits, 0, n)
            if len(label) > n or kb[pk:pk + len(label)] != label:
                raise NotProved('account not in dictionary')
            pk += len(label)
            n -= len(label)
            if n == 0:
                return cell.refs[leaf_account_index(cell, pos)]
            b = int(kb[pk])
            cell = cell.refs[b]
            pk += 1
            n -= 1
    except (IndexError, ValueError):
        raise NotProved('malformed state')


def verify_account(roots, block_hash, key, claimed):
    if len(roots) != 2:
        raise NotProved('expected two roots')
    r0, r1 = roots
    if not is_mproof(r0) or not is_mproof(r1):
        raise NotProved('a root is not a Merkle proof cell')
    blockc = r0.refs[0]
    verify_header(blockc, block_hash)
    sh = state_hash_of_block(blockc)
    if r1.refs[0].hash_at(0) != sh:
        raise NotProved('state hash mismatch')
    acc = find_account_cell(r1.refs[0], key)
    if acc.hash_at(0) != claimed.hash:
        raise NotProved('claimed account state has another hash')
    return True
