"""Reference models: written from the TON specifications, never importing pytoniq_core."""
