"""Reference TL: schema-text parser, binary encoder and decoder.  Written from the TL language
description (core.telegram.org/mtproto/TL, .../serialize) and TON's conventions; never imports pytoniq_core.

Value form (the form the library's parser returns, see DESIGN 6/C14):
  int, long, #        -> int
  int128, int256      -> lowercase hex str of the raw bytes
  Bool                -> bool
  bytes               -> bytes ; string -> str
  (vector T)          -> list
  bare / boxed object -> dict of fields (+ '@type': constructor name; compared modulo that key for bare fields)
  flags.N?T           -> key absent (or None) when bit N of the flags field is clear
"""
import re


class TlModelError(Exception):
    pass


def crc32_ieee(data):
    crc = 0xFFFFFFFF
    for b in data:
        crc ^= b
        for _ in range(8):
            crc = (crc >> 1) ^ (0xEDB88320 if crc & 1 else 0)
    return crc ^ 0xFFFFFFFF


BASE = {'int': 4, 'long': 8, 'int128': 16, 'int256': 32, '#': 4}
BOOL_TRUE = 0x997275b5
BOOL_FALSE = 0xbc799737
BUILTIN_NAMES = {'int', 'long', 'double', 'string', 'object', 'function', 'bytes', 'true', 'boolTrue', 'boolFalse', 'vector', 'int128', 'int256'}


class Field:
    __slots__ = ('name', 'type', 'cond')  # cond = (flags_field_name, bit) or None

    def __init__(self, name, type_, cond):
        self.name, self.type, self.cond = name, type_, cond

    def __repr__(self):
        return '%s:%s%s' % (self.name, ('%s.%d?' % self.cond) if self.cond else '', self.type)


class Constructor:
    def __init__(self, name, cid, fields, result, section, source, text):
        self.name, self.id, self.fields, self.result, self.section, self.source, self.text = name, cid, fields, result, section, source, text

    def __repr__(self):
        return '<%s#%08x %s = %s>' % (self.name, self.id, self.fields, self.result)


def _split_args(s):
    """Split 'a:int b:(vector x) c:flags.0?y' at top-level spaces."""
    out, depth, cur = [], 0, ''
    for ch in s:
        if ch in '([{':
            depth += 1
        elif ch in ')]}':
            depth -= 1
        if ch == ' ' and depth == 0:
            if cur:
                out.append(cur)
            cur = ''
        else:
            cur += ch
    if cur:
        out.append(cur)
    return out


def parse_schema_text(text, source=''):
    """-> list of Constructor (including built-ins, flagged by name in BUILTIN_NAMES)."""
    # comments
    lines = []
    for line in text.splitlines():
        line = line.split('//')[0].strip()
        if line:
            lines.append(line)
    section = 'types'
    out = []
    buf = ''
    for line in lines:
        if line.startswith('---'):
            section = 'functions' if 'functions' in line else 'types'
            continue
        buf = (buf + ' ' + line).strip()
        while ';' in buf:
            decl, buf = buf.split(';', 1)
            buf = buf.strip()
            decl = ' '.join(decl.split())
            if decl:
                out.append(_parse_decl(decl, section, source))
    return out


def _parse_decl(decl, section, source):
    if '=' not in decl:
        raise TlModelError('no = in %r' % decl)
    left, result = decl.rsplit('=', 1)
    result = result.strip()
    toks = left.split()
    head = toks[0]
    if '#' in head:
        name, hexid = head.split('#')
        cid = int(hexid, 16)
    else:
        name = head
        canon = decl.replace('(', '').replace(')', '')
        canon = ' '.join(canon.split())
        cid = crc32_ieee(canon.encode())
    fields = []
    opaque = False
    for a in _split_args(' '.join(toks[1:])):
        if ':' not in a or a.startswith('{'):
            opaque = True   # '?', '{t:Type}', '#', '[ t ]', '4*[ int ]'
            continue
        fname, ftype = a.split(':', 1)
        cond = None
        m = re.match(r'^([A-Za-z_][A-Za-z0-9_]*)\.(\d+)\?(.+)$', ftype)
        if m:
            cond = (m.group(1), int(m.group(2)))
            ftype = m.group(3)
        fields.append(Field(fname, ftype, cond))
    c = Constructor(name, cid, fields, result, section, source, decl)
    c.opaque = opaque
    return c


def is_bare_name(t):
    """TL: a type identifier whose last component starts with a lower-case letter names a constructor (bare type)."""
    last = t.split('.')[-1]
    return last[:1].islower()


def vector_elem(t):
    m = re.match(r'^\(\s*vector\s+(.+?)\s*\)$', t)
    if m:
        return m.group(1)
    m = re.match(r'^vector<(.+)>$', t)
    if m:
        return m.group(1)
    return None


class Schema:
    def __init__(self, constructors):
        self.all = list(constructors)
        self.by_name = {}
        self.by_id = {}
        self.by_class = {}
        for c in self.all:
            if c.name in BUILTIN_NAMES:
                continue
            self.by_name.setdefault(c.name, c)
            self.by_id.setdefault(c.id, c)
            if c.section == 'types':
                self.by_class.setdefault(c.result, []).append(c)
        self._supported = {}

    # ---- which constructors have only field types the library claims to support ----
    def type_supported(self, t, stack=()):
        if t in BASE or t in ('Bool', 'bytes', 'string'):
            return True
        if t in ('double', 'true', 'object', 'function', 'Object', 'Function', 'Int', 'Long', 'Double', 'String', 'True', 'int32', 'int64', 'int53', 'secureString', 'secureBytes'):
            return False
        e = vector_elem(t)
        if e is not None:
            return self.type_supported(e, stack)
        if is_bare_name(t):
            c = self.by_name.get(t)
            return c is not None and self.constructor_supported(c, stack)
        cs = self.by_class.get(t)
        if not cs:
            return False
        return any(self.constructor_supported(c, stack) for c in cs)

    def constructor_supported(self, c, stack=()):
        if c.name in self._supported:
            return self._supported[c.name]
        if c.name in stack:
            return True  # recursion through an already visited constructor does not by itself disqualify
        if getattr(c, 'opaque', False):
            self._supported[c.name] = False
            return False
        ok = True
        for f in c.fields:
            if f.type == 'true' and f.cond is not None:
                continue  # flag-only marker: carve-out, always generated as absent
            if not self.type_supported(f.type, stack + (c.name,)):
                ok = False
                break
        if not stack:
            self._supported[c.name] = ok
        return ok

    def class_options(self, t):
        return [c for c in self.by_class.get(t, []) if self.constructor_supported(c)]

    # ---- encoding ----
    def encode(self, cname, value, boxed=True):
        c = self.by_name[cname]
        out = bytearray()
        if boxed:
            out += c.id.to_bytes(4, 'little')
        for f in c.fields:
            if f.cond is not None:
                flags = value.get(f.cond[0])
                if flags is None or not (flags >> f.cond[1]) & 1:
                    if value.get(f.name) is not None and f.type != 'true':
                        raise TlModelError('%s.%s present but flag bit %d clear' % (cname, f.name, f.cond[1]))
                    continue
                if f.type == 'true':
                    continue
                if value.get(f.name) is None:
                    raise TlModelError('%s.%s absent but flag bit %d set' % (cname, f.name, f.cond[1]))
            out += self.encode_type(f.type, value[f.name])
        return bytes(out)

    def encode_type(self, t, v):
        if t == '#':
            return (v & 0xFFFFFFFF).to_bytes(4, 'little')
        if t in ('int', 'long'):
            return v.to_bytes(BASE[t], 'little', signed=True)
        if t in ('int128', 'int256'):
            b = bytes.fromhex(v) if isinstance(v, str) else bytes(v)
            if len(b) != BASE[t]:
                raise TlModelError('%s needs %d bytes' % (t, BASE[t]))
            return b
        if t == 'Bool':
            return (BOOL_TRUE if v else BOOL_FALSE).to_bytes(4, 'little')
        if t in ('bytes', 'string'):
            b = v.encode() if isinstance(v, str) else bytes(v)
            return enc_bytes(b)
        e = vector_elem(t)
        if e is not None:
            out = bytearray(len(v).to_bytes(4, 'little'))
            for x in v:
                out += self.encode_type(e, x)
            return bytes(out)
        if is_bare_name(t):
            return self.encode(t, v, boxed=False)
        return self.encode(v['@type'], v, boxed=True)

    # ---- decoding ----
    def decode(self, data, pos=0):
        """Boxed object at pos -> (value, new pos)."""
        if pos + 4 > len(data):
            raise TlModelError('no room for a constructor id')
        cid = int.from_bytes(data[pos:pos + 4], 'little')
        c = self.by_id.get(cid)
        if c is None:
            raise TlModelError('unknown constructor id %08x' % cid)
        return self.decode_fields(c, data, pos + 4, True)

    def decode_fields(self, c, data, pos, typed):
        v = {}
        if typed:
            v['@type'] = c.name
        for f in c.fields:
            if f.cond is not None:
                flags = v.get(f.cond[0])
                if flags is None or not (flags >> f.cond[1]) & 1:
                    continue
                if f.type == 'true':
                    continue
            v[f.name], pos = self.decode_type(f.type, data, pos)
        return v, pos

    def decode_type(self, t, data, pos):
        def need(n):
            if pos + n > len(data):
                raise TlModelError('truncated')
        if t == '#':
            need(4)
            return int.from_bytes(data[pos:pos + 4], 'little'), pos + 4
        if t in ('int', 'long'):
            n = BASE[t]
            need(n)
            return int.from_bytes(data[pos:pos + n], 'little', signed=True), pos + n
        if t in ('int128', 'int256'):
            n = BASE[t]
            need(n)
            return data[pos:pos + n].hex(), pos + n
        if t == 'Bool':
            need(4)
            x = int.from_bytes(data[pos:pos + 4], 'little')
            if x not in (BOOL_TRUE, BOOL_FALSE):
                raise TlModelError('bad Bool')
            return x == BOOL_TRUE, pos + 4
        if t in ('bytes', 'string'):
            b, pos = dec_bytes(data, pos)
            return (b.decode() if t == 'string' else b), pos
        e = vector_elem(t)
        if e is not None:
            need(4)
            n = int.from_bytes(data[pos:pos + 4], 'little')
            pos += 4
            if n > len(data) - pos and n:
                raise TlModelError('vector length exceeds the data')
            out = []
            for _ in range(n):
                x, pos = self.decode_type(e, data, pos)
                out.append(x)
            return out, pos
        if is_bare_name(t):
            c = self.by_name.get(t)
            if c is None:
                raise TlModelError('unknown bare type %s' % t)
            return self.decode_fields(c, data, pos, True)
        v, pos = self.decode(data, pos)
        if self.by_name[v['@type']].result != t:
            raise TlModelError('constructor %s is not of type %s' % (v['@type'], t))
        return v, pos


def enc_bytes(b):
    n = len(b)
    if n <= 253:
        out = bytes([n]) + b
    else:
        if n >= 1 << 24:
            raise TlModelError('string too long')
        out = b'\xfe' + n.to_bytes(3, 'little') + b
    return out + b'\x00' * (-len(out) % 4)


def dec_bytes(data, pos):
    if pos >= len(data):
        raise TlModelError('truncated')
    if data[pos] == 0xfe:
        if pos + 4 > len(data):
            raise TlModelError('truncated')
        n = int.from_bytes(data[pos + 1:pos + 4], 'little')
        start = pos + 4
    elif data[pos] == 0xff:
        raise TlModelError('0xff length marker')
    else:
        n = data[pos]
        start = pos + 1
    end = start + n
    if end > len(data):
        raise TlModelError('truncated')
    tot = end - pos
    end_p = pos + tot + (-tot % 4)
    if end_p > len(data):
        raise TlModelError('truncated padding')
    return bytes(data[start:end]), end_p


def strip_types(v):
    """Value modulo the '@type' key of objects whose type is implied by the schema (bare fields)."""
    if isinstance(v, dict):
        return {k: strip_types(x) for k, x in v.items() if x is not None}
    if isinstance(v, list):
        return [strip_types(x) for x in v]
    return v


def selftest():
    """Public vectors: constructor ids documented for ADNL / lite-server and two recorded ADNL frames."""
    import json
    import os
    d = os.path.join(os.path.dirname(os.path.abspath(__file__)), 'vectors')
    cs = []
    for f in ('lite_api.tl', 'ton_api.tl'):
        with open(os.path.join(d, f)) as fh:
            cs += parse_schema_text(fh.read(), f)
    s = Schema(cs)
    ids = {'dht.ping': 0xcbeb3f18, 'adnl.packetContents': 0xd142cd89, 'pub.ed25519': 0x4813b4c6, 'ton.blockId': 0xc50b6e70, 'liteServer.getMasterchainInfo': 0x89b5e62e,
           'liteServer.query': 0x798c06df, 'adnl.message.query': 0xb48bf97a, 'adnl.message.answer': 0x0fac8416, 'liteServer.masterchainInfo': 0x85832881}
    for n, w in ids.items():
        yield 'tl id ' + n, s.by_name[n].id == w
    with open(os.path.join(d, 'tl_frames.json')) as fh:
        fr = json.load(fh)
    data = bytes.fromhex(fr['adnl_packet_contents'])
    v, pos = s.decode(data)
    yield 'tl decode adnl.packetContents', pos == len(data) == 1344 and v['seqno'] == 6 and v['confirm_seqno'] == 5 and len(v['messages']) == 2
    yield 'tl encode adnl.packetContents', s.encode('adnl.packetContents', v) == data
    data = bytes.fromhex(fr['adnl_message_answer'])
    v, pos = s.decode(data)
    yield 'tl decode adnl.message.answer', pos == len(data) and v['@type'] == 'adnl.message.answer' and s.encode(v['@type'], v) == data
    yield 'tl bytes framing', enc_bytes(b'x' * 253)[:1] == b'\xfd' and enc_bytes(b'x' * 254)[:4] == b'\xfe\xfe\x00\x00' and len(enc_bytes(b'x' * 254)) == 260 and enc_bytes(b'') == b'\x00\x00\x00\x00'
