"""RCell - immutable reference model of a TON cell (tvm.pdf 3.1, crypto/vm/cells/DataCell.cpp).

Bits are a '01' string, refs a tuple of RCell.  Level mask, per-level hashes and depths for
ordinary, pruned-branch, library, Merkle-proof and Merkle-update cells.  No pytoniq_core import.
"""
import hashlib

ORDINARY, PRUNED, LIBRARY, MPROOF, MUPDATE = -1, 1, 2, 3, 4
MAX_DEPTH = 1023


class RCellError(Exception):
    pass


def popcount(x):
    return bin(x).count('1')


def bits_to_bytes_padded(bits):
    """Data of a cell as bytes: completion tag 1 then zeros if not byte aligned."""
    if len(bits) % 8:
        bits = bits + '1'
        bits = bits + '0' * (-len(bits) % 8)
    if not bits:
        return b''
    return int(bits, 2).to_bytes(len(bits) // 8, 'big')


def bytes_to_bits(b):
    if not b:
        return ''
    return bin(int.from_bytes(b, 'big'))[2:].zfill(len(b) * 8)


class RCell:
    __slots__ = ('bits', 'refs', 'special', 'type', 'mask', '_hashes', '_depths', '_hkey')

    def __init__(self, bits, refs=(), special=False, strict=True):
        if not isinstance(bits, str) or bits.strip('01'):
            raise RCellError('bits must be a 01 string')
        refs = tuple(refs)
        if len(bits) > 1023:
            raise RCellError('more than 1023 bits')
        if len(refs) > 4:
            raise RCellError('more than 4 refs')
        self.bits = bits
        self.refs = refs
        self.special = bool(special)
        if not special:
            self.type = ORDINARY
        else:
            if len(bits) < 8:
                raise RCellError('special cell shorter than 8 bits')
            self.type = int(bits[:8], 2)
        self.mask = self._resolve_mask(strict)
        self._hashes = {}
        self._depths = {}
        self._compute()
        self._hkey = self._hashes[self._top_index()]

    # ---- structure ----
    def _resolve_mask(self, strict):
        t = self.type
        if t == ORDINARY:
            m = 0
            for r in self.refs:
                m |= r.mask
            return m
        if t == PRUNED:
            if self.refs:
                raise RCellError('pruned branch with refs')
            if len(self.bits) < 16:
                raise RCellError('pruned branch too short')
            m = int(self.bits[8:16], 2)
            if m < 1 or m > 7:
                raise RCellError('pruned branch mask out of range')
            if len(self.bits) != 16 + popcount(m) * (256 + 16):
                raise RCellError('pruned branch length')
            return m
        if t == LIBRARY:
            if self.refs or len(self.bits) != 8 + 256:
                raise RCellError('bad library cell')
            return 0
        if t == MPROOF:
            if len(self.refs) != 1 or len(self.bits) != 8 + 256 + 16:
                raise RCellError('bad merkle proof cell')
            if strict:
                c = self.refs[0]
                if bytes_to_bits(c.hash_at(0)) != self.bits[8:264] or c.depth_at(0) != int(self.bits[264:280], 2):
                    raise RCellError('merkle proof hash/depth mismatch')
            return self.refs[0].mask >> 1
        if t == MUPDATE:
            if len(self.refs) != 2 or len(self.bits) != 8 + 2 * (256 + 16):
                raise RCellError('bad merkle update cell')
            if strict:
                for i, c in enumerate(self.refs):
                    if bytes_to_bits(c.hash_at(0)) != self.bits[8 + 256 * i: 264 + 256 * i]:
                        raise RCellError('merkle update hash mismatch')
                    if c.depth_at(0) != int(self.bits[520 + 16 * i: 536 + 16 * i], 2):
                        raise RCellError('merkle update depth mismatch')
            return (self.refs[0].mask | self.refs[1].mask) >> 1
        raise RCellError('unknown special type %d' % t)

    @property
    def level(self):
        return self.mask.bit_length()

    def _top_index(self):
        return popcount(self.mask)

    def d1(self, mask=None):
        if mask is None:
            mask = self.mask
        return len(self.refs) + 8 * self.special + 32 * mask

    def d2(self):
        n = len(self.bits)
        return n // 8 + (n + 7) // 8

    def data_bytes(self):
        return bits_to_bytes_padded(self.bits)

    # ---- hashes ----
    def _significant_levels(self):
        return [0] + [l for l in (1, 2, 3) if (self.mask >> (l - 1)) & 1]

    def _compute(self):
        levels = self._significant_levels()
        merkle = self.type in (MPROOF, MUPDATE)
        if self.type == PRUNED:
            levels = levels[-1:]  # only the top hash is computed, the rest are stored
        prev = None
        for li in levels:
            eff = self.mask & ((1 << li) - 1)
            h = hashlib.sha256(bytes([self.d1(eff), self.d2()]))
            if prev is None:
                h.update(self.data_bytes())
            else:
                h.update(prev)
            cl = li + 1 if merkle else li
            depth = 0
            for r in self.refs:
                d = r.depth_at(cl)
                h.update(d.to_bytes(2, 'big'))
                depth = max(depth, d)
            if self.refs:
                depth += 1
                if depth > MAX_DEPTH:
                    raise RCellError('depth above 1023')
            for r in self.refs:
                h.update(r.hash_at(cl))
            idx = popcount(eff)
            prev = h.digest()
            self._hashes[idx] = prev
            self._depths[idx] = depth

    def hash_at(self, level):
        level = min(level, 3)
        idx = popcount(self.mask & ((1 << level) - 1))
        if self.type == PRUNED and idx != self._top_index():
            data = self.data_bytes()
            return data[2 + 32 * idx: 2 + 32 * (idx + 1)]
        return self._hashes[idx]

    def depth_at(self, level):
        level = min(level, 3)
        idx = popcount(self.mask & ((1 << level) - 1))
        if self.type == PRUNED and idx != self._top_index():
            data = self.data_bytes()
            off = 2 + 32 * self._top_index() + 2 * idx
            return int.from_bytes(data[off: off + 2], 'big')
        return self._depths[idx]

    @property
    def hash(self):
        """Representation hash (the hash at the cell's own level)."""
        return self._hkey

    @property
    def depth(self):
        return self._depths[self._top_index()]

    def repr_bytes(self):
        """Standard representation of an ORDINARY level-0 cell (tvm.pdf 3.1.4)."""
        out = bytes([self.d1(), self.d2()]) + self.data_bytes()
        for r in self.refs:
            out += r.depth.to_bytes(2, 'big')
        for r in self.refs:
            out += r.hash
        return out

    # ---- value semantics ----
    def __eq__(self, other):
        return isinstance(other, RCell) and self._hkey == other._hkey

    def __hash__(self):
        return hash(self._hkey)

    def __repr__(self):
        return 'RCell(%s%d bits, %d refs, %s)' % ('*' if self.special else '', len(self.bits), len(self.refs), self._hkey.hex()[:8])

    # ---- helpers ----
    def walk(self):
        """All distinct cells reachable (iterative, by hash)."""
        seen = {}
        stack = [self]
        while stack:
            c = stack.pop()
            if c._hkey in seen:
                continue
            seen[c._hkey] = c
            stack.extend(c.refs)
        return list(seen.values())

    def same_structure(self, other):
        """Recursive structural equality (bits, special flag, refs), memoised and iterative."""
        memo = set()
        stack = [(self, other)]
        while stack:
            a, b = stack.pop()
            if (id(a), id(b)) in memo:
                continue
            memo.add((id(a), id(b)))
            if a.bits != b.bits or a.special != b.special or len(a.refs) != len(b.refs):
                return False
            stack.extend(zip(a.refs, b.refs))
        return True


def pruned_of(cell, extra_level=1):
    """Pruned-branch cell standing for `cell` at Merkle depth `extra_level` (1..3).

    mask = cell.mask | (1 << (extra_level-1)); stores cell's hashes/depths for every
    significant level below the new one.
    """
    bit = 1 << (extra_level - 1)
    if cell.mask >= bit:
        raise RCellError('cannot prune a cell of level >= new level')
    mask = cell.mask | bit
    levels = [0] + [l for l in (1, 2, 3) if (cell.mask >> (l - 1)) & 1]
    hashes = b''.join(cell.hash_at(l) for l in levels)
    depths = b''.join(cell.depth_at(l).to_bytes(2, 'big') for l in levels)
    data = bytes([1, mask]) + hashes + depths
    return RCell(bytes_to_bits(data), (), True)


def merkle_proof_of(child):
    data = bytes([3]) + child.hash_at(0) + child.depth_at(0).to_bytes(2, 'big')
    return RCell(bytes_to_bits(data), (child,), True)


def merkle_update_of(old, new):
    data = bytes([4]) + old.hash_at(0) + new.hash_at(0) + old.depth_at(0).to_bytes(2, 'big') + new.depth_at(0).to_bytes(2, 'big')
    return RCell(bytes_to_bits(data), (old, new), True)


def library_ref_of(h):
    return RCell(bytes_to_bits(bytes([2]) + h), (), True)
