"""Strict reference codec for the TON serialized_boc format (crypto/tl/boc.tlb, crypto/vm/boc.cpp).

encode(): every freedom a conforming encoder has (size 1..4, offset width 1..8, index, cache
bits, CRC-32C, stored hashes, several roots, any topological order, the three magics).
decode(): rejects everything the format forbids.  No pytoniq_core import.
"""
from .rcell import RCell, RCellError, popcount, bytes_to_bits

MAGIC_GENERIC = bytes.fromhex('b5ee9c72')
MAGIC_IDX = bytes.fromhex('68ff65f3')
MAGIC_IDX_CRC = bytes.fromhex('acc3a728')


class BocFormatError(Exception):
    pass


def crc32c(data):
    """CRC-32C (Castagnoli), bitwise, little-endian result bytes as stored in a BoC."""
    crc = 0xFFFFFFFF
    for b in data:
        crc ^= b
        for _ in range(8):
            crc = (crc >> 1) ^ (0x82F63B78 if crc & 1 else 0)
    return (crc ^ 0xFFFFFFFF).to_bytes(4, 'little')


_CRC32C_TABLE = None


def crc32c_fast(data):
    global _CRC32C_TABLE
    if _CRC32C_TABLE is None:
        t = []
        for i in range(256):
            c = i
            for _ in range(8):
                c = (c >> 1) ^ (0x82F63B78 if c & 1 else 0)
            t.append(c)
        _CRC32C_TABLE = t
    t = _CRC32C_TABLE
    crc = 0xFFFFFFFF
    for b in data:
        crc = t[(crc ^ b) & 0xFF] ^ (crc >> 8)
    return (crc ^ 0xFFFFFFFF).to_bytes(4, 'little')


def crc16_xmodem(data):
    crc = 0
    for b in data:
        crc ^= b << 8
        for _ in range(8):
            crc = ((crc << 1) ^ 0x1021) & 0xFFFF if crc & 0x8000 else (crc << 1) & 0xFFFF
    return crc.to_bytes(2, 'big')


def topo_order(roots):
    """Deterministic topological order (every cell before the cells it references)."""
    cells = {}
    order_in = []
    stack = list(reversed(roots))
    while stack:
        c = stack.pop()
        if c.hash in cells:
            continue
        cells[c.hash] = c
        order_in.append(c)
        stack.extend(reversed(c.refs))
    # Kahn over "parent before child"
    indeg = {h: 0 for h in cells}
    for c in order_in:
        for r in set(x.hash for x in c.refs):
            indeg[r] += 1
    ready = [c for c in order_in if indeg[c.hash] == 0]
    out = []
    while ready:
        c = ready.pop(0)
        out.append(c)
        for r in dict.fromkeys(x.hash for x in c.refs):
            indeg[r] -= 1
            if indeg[r] == 0:
                ready.append(cells[r])
    if len(out) != len(cells):
        raise BocFormatError('cycle')
    return out


def random_topo_order(roots, rng):
    cells = {}
    order_in = []
    stack = list(reversed(roots))
    while stack:
        c = stack.pop()
        if c.hash in cells:
            continue
        cells[c.hash] = c
        order_in.append(c)
        stack.extend(reversed(c.refs))
    indeg = {h: 0 for h in cells}
    for c in order_in:
        for r in set(x.hash for x in c.refs):
            indeg[r] += 1
    ready = [c for c in order_in if indeg[c.hash] == 0]
    out = []
    while ready:
        c = ready.pop(rng.randrange(len(ready)))
        out.append(c)
        for r in dict.fromkeys(x.hash for x in c.refs):
            indeg[r] -= 1
            if indeg[r] == 0:
                ready.append(cells[r])
    return out


def cell_body(c, index_of, size, with_hashes=False):
    d1 = c.d1() + (16 if with_hashes else 0)
    out = bytearray([d1, c.d2()])
    if with_hashes:
        levels = [0] + [l for l in (1, 2, 3) if (c.mask >> (l - 1)) & 1]
        for l in levels:
            out += c.hash_at(l)
        for l in levels:
            out += c.depth_at(l).to_bytes(2, 'big')
    out += c.data_bytes()
    for r in c.refs:
        out += index_of[r.hash].to_bytes(size, 'big')
    return bytes(out)


def min_bytes(n):
    return max(1, (n.bit_length() + 7) // 8)


def encode(roots, *, magic='generic', has_idx=False, has_crc=False, has_cache_bits=False, cache_set=(),
           size=None, off_bytes=None, order=None, with_hashes=None, ref_override=None):
    """Encode DAG roots.  `with_hashes`: set of cell hashes to store hashes for (or True for all).
    `ref_override`: {(cell_index, ref_slot): index} - Byzantine encoder writing a bad reference."""
    if isinstance(roots, RCell):
        roots = [roots]
    if order is None:
        order = topo_order(roots)
    index_of = {c.hash: i for i, c in enumerate(order)}
    n = len(order)
    if size is None:
        size = min_bytes(n)
    if size < min_bytes(n) or not 1 <= size <= 4:
        raise BocFormatError('size too small')
    bodies = []
    for i, c in enumerate(order):
        wh = with_hashes is True or (with_hashes and c.hash in with_hashes)
        b = cell_body(c, index_of, size, wh)
        if ref_override:
            for (ci, slot), val in ref_override.items():
                if ci == i and ci != 'root':
                    nref = len(c.refs)
                    pos = len(b) - (nref - slot) * size
                    b = b[:pos] + (val % (1 << (8 * size))).to_bytes(size, 'big') + b[pos + size:]
        bodies.append(b)
    payload = b''.join(bodies)
    tot = len(payload)
    mult = 2 if has_cache_bits else 1
    need_off = min_bytes(tot * mult if (has_idx or magic != 'generic') else tot)
    if off_bytes is None:
        off_bytes = need_off
    if off_bytes < need_off or not 1 <= off_bytes <= 8:
        raise BocFormatError('offset width too small')
    if magic == 'generic':
        if has_cache_bits and not has_idx:
            raise BocFormatError('cache bits need an index')
        flags = (128 if has_idx else 0) | (64 if has_crc else 0) | (32 if has_cache_bits else 0) | size
        out = bytearray(MAGIC_GENERIC) + bytes([flags, off_bytes])
        out += n.to_bytes(size, 'big') + len(roots).to_bytes(size, 'big') + (0).to_bytes(size, 'big')
        out += tot.to_bytes(off_bytes, 'big')
        for k, r in enumerate(roots):
            v = index_of[r.hash]
            if ref_override and ('root', k) in ref_override:
                v = ref_override[('root', k)] % (1 << (8 * size))   # Byzantine encoder: dangling root index
            out += v.to_bytes(size, 'big')
    else:
        if len(roots) != 1 or index_of[roots[0].hash] != 0:
            raise BocFormatError('legacy forms have exactly one root, cell 0')
        has_idx = True
        has_cache_bits = False
        mult = 1
        has_crc = magic == 'idx_crc'
        out = bytearray(MAGIC_IDX_CRC if has_crc else MAGIC_IDX) + bytes([size, off_bytes])
        out += n.to_bytes(size, 'big') + (1).to_bytes(size, 'big') + (0).to_bytes(size, 'big')
        out += tot.to_bytes(off_bytes, 'big')
    if has_idx:
        end = 0
        for i, b in enumerate(bodies):
            end += len(b)
            v = end * mult
            if has_cache_bits and i in cache_set:
                v += 1
            out += v.to_bytes(off_bytes, 'big')
    out += payload
    if has_crc:
        out += crc32c_fast(bytes(out))
    return bytes(out)


def decode(data, check_crc=True):
    """Strict decode.  Returns list of root RCells, or raises BocFormatError."""
    try:
        return _decode(data, check_crc)
    except (IndexError, RCellError) as e:
        raise BocFormatError('malformed: %r' % (e,))


def _decode(data, check_crc):
    if len(data) < 6:
        raise BocFormatError('too short')
    magic = bytes(data[:4])
    if magic == MAGIC_GENERIC:
        fl = data[4]
        has_idx, has_crc, has_cache = bool(fl & 128), bool(fl & 64), bool(fl & 32)
        if fl & 0x18:
            raise BocFormatError('flags must be 0')
        size = fl & 7
        generic = True
    elif magic in (MAGIC_IDX, MAGIC_IDX_CRC):
        has_idx, has_crc, has_cache = True, magic == MAGIC_IDX_CRC, False
        size = data[4]
        generic = False
    else:
        raise BocFormatError('bad magic')
    if has_cache and not has_idx:
        raise BocFormatError('cache bits without index')
    if not 1 <= size <= 4:
        raise BocFormatError('size out of range')
    off = data[5]
    if not 1 <= off <= 8:
        raise BocFormatError('off_bytes out of range')
    p = 6

    def take(k):
        nonlocal p
        if p + k > len(data):
            raise BocFormatError('truncated')
        v = bytes(data[p:p + k])
        p += k
        return v

    cells = int.from_bytes(take(size), 'big')
    roots = int.from_bytes(take(size), 'big')
    absent = int.from_bytes(take(size), 'big')
    tot = int.from_bytes(take(off), 'big')
    if generic:
        if roots < 1:
            raise BocFormatError('no roots')
    elif roots != 1:
        raise BocFormatError('legacy form with roots != 1')
    if roots + absent > cells:
        raise BocFormatError('roots+absent > cells')
    if absent:
        raise BocFormatError('absent cells unsupported')
    # cheap global length test before anything proportional to a count field
    need = (roots * size if generic else 0) + (cells * off if has_idx else 0) + tot + (4 if has_crc else 0)
    if len(data) - p != need:
        raise BocFormatError('length mismatch')
    if cells * 2 > tot:
        raise BocFormatError('cell count exceeds data')
    root_list = [int.from_bytes(take(size), 'big') for _ in range(roots)] if generic else [0]
    for r in root_list:
        if r >= cells:
            raise BocFormatError('root index out of range')
    index = None
    if has_idx:
        index = [int.from_bytes(take(off), 'big') for _ in range(cells)]
    body = take(tot)
    if has_crc:
        c = take(4)
        if check_crc and crc32c_fast(bytes(data[:p - 4])) != c:
            raise BocFormatError('crc mismatch')
    if p != len(data):
        raise BocFormatError('trailing bytes')
    raw = []
    q = 0
    for ci in range(cells):
        start = q
        if q + 2 > tot:
            raise BocFormatError('cell header past end')
        d1, d2 = body[q], body[q + 1]
        q += 2
        nrefs = d1 & 7
        special = bool(d1 & 8)
        with_hashes = bool(d1 & 16)
        mask = d1 >> 5
        if nrefs > 4:
            raise BocFormatError('more than 4 refs / absent cell')
        stored = None
        if with_hashes:
            hn = popcount(mask) + 1
            if q + hn * 34 > tot:
                raise BocFormatError('stored hashes past end')
            stored = (body[q:q + hn * 32], body[q + hn * 32:q + hn * 34])
            q += hn * 34
        dlen = (d2 >> 1) + (d2 & 1)
        if q + dlen + nrefs * size > tot:
            raise BocFormatError('cell data past end')
        dbytes = body[q:q + dlen]
        q += dlen
        bits = bytes_to_bits(dbytes)
        if d2 & 1:
            if not dbytes or not (dbytes[-1] & 0x7F):
                raise BocFormatError('overlong completion tag encoding')
            bits = bits[:bits.rindex('1')]
        refs = []
        for _ in range(nrefs):
            r = int.from_bytes(body[q:q + size], 'big')
            q += size
            if r <= ci:
                raise BocFormatError('backward or self reference')
            if r >= cells:
                raise BocFormatError('dangling reference')
            refs.append(r)
        raw.append((bits, refs, special, mask, stored))
        if index is not None:
            v = index[ci]
            if has_cache:
                v >>= 1
            if v != q:
                raise BocFormatError('index entry does not match cell end')
    if q != tot:
        raise BocFormatError('cell data length mismatch')
    built = [None] * cells
    for ci in range(cells - 1, -1, -1):
        bits, refs, special, mask, stored = raw[ci]
        c = RCell(bits, [built[r] for r in refs], special)
        if c.mask != mask:
            raise BocFormatError('level mask mismatch')
        if stored is not None:
            levels = [0] + [l for l in (1, 2, 3) if (c.mask >> (l - 1)) & 1]
            hs = b''.join(c.hash_at(l) for l in levels)
            ds = b''.join(c.depth_at(l).to_bytes(2, 'big') for l in levels)
            if hs != stored[0] or ds != stored[1]:
                raise BocFormatError('stored hash/depth mismatch')
        built[ci] = c
    return [built[r] for r in root_list]
