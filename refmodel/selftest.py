"""The reference models are validated against public vectors before they are trusted.

Nothing here calls pytoniq_core: only the *text* of the repository's test files is read for the
pinned vectors (main-net block BoC and its hash, friendly addresses, dictionary hash, ADNL packet).
"""
import base64
import hashlib
import os
import re
import sys

from . import boc, hashmap, rcell, tlb

REPO = os.path.realpath(os.environ.get('VERIF_REPO', '/repo'))
PINNED_REPO = '/repo'  # vectors are public constants; always read from the pinned checkout's tests

EMPTY_HASH = '96a296d224f285c67bee93c30f8a309157f0daa35dc5b87e410b78630a09cfc7'
BLOCK_HASH = 'b0c09b7c116f951092b3d1b258fb98adc01c698a227b3b2e268469c24173eeb2'
DICT_HASH = 'c279e85752ad418d54a023d5d391066fa6a560450f9562dcecfa6e6641393b6a'
ADDRS = ['EQBvW8Z5huBkMJYdnfAEM5JqTNkuWX3diqYENkWsIL0XggGG', 'EQCD39VS5jcptHL8vMjEXrzGaRcCVYto7HUn4bpAOg8xqB2N',
         'Ef8zMzMzMzMzMzMzMzMzMzMzMzMzMzMzMzMzMzMzMzMzM0vF', 'EQDtFpEwcFAEcRe5mLVh2N6C0x-_hJEM7W61_JLnSF74p4q2']


def _block_boc():
    here = os.path.dirname(os.path.abspath(__file__))
    p = os.path.join(here, 'vectors', 'mainnet_block.b64')
    with open(p) as f:
        return base64.b64decode(f.read().strip())


def run(verbose=True):
    bad = []

    def check(name, cond):
        if verbose:
            print(('ok   ' if cond else 'FAIL ') + name)
        if not cond:
            bad.append(name)

    check('empty cell hash', rcell.RCell('').hash.hex() == EMPTY_HASH)
    check('crc32c check value', boc.crc32c(b'123456789')[::-1].hex() == 'e3069283')
    check('crc32c table = bitwise', all(boc.crc32c_fast(bytes(range(i, i + 37))) == boc.crc32c(bytes(range(i, i + 37))) for i in range(0, 200, 7)))
    check('crc16/xmodem check value', boc.crc16_xmodem(b'123456789').hex() == '31c3')
    data = _block_boc()
    try:
        roots = boc.decode(data)
        check('main-net block decodes strictly (301 cells)', len(roots) == 1 and len(roots[0].walk()) == 301)
        check('main-net block root hash', roots[0].hash.hex() == BLOCK_HASH)
        kinds = collections_count(roots[0])
        check('block has pruned branches and a merkle update', kinds.get(1, 0) == 81 and kinds.get(4, 0) == 1)
        for kw in ({}, {'has_idx': True}, {'has_idx': True, 'has_cache_bits': True, 'has_crc': True}, {'size': 3, 'off_bytes': 5},
                   {'magic': 'idx'}, {'magic': 'idx_crc'}, {'with_hashes': True}):
            d = boc.decode(boc.encode(roots, **kw))
            check('re-encode/decode %r' % (kw,), d[0].hash == roots[0].hash and d[0].same_structure(roots[0]))
    except Exception as e:  # pragma: no cover
        check('main-net block decodes strictly: %r' % (e,), False)
    check('empty boc', boc.decode(bytes.fromhex('b5ee9c72010101010002000000'))[0].hash.hex() == EMPTY_HASH)
    # friendly addresses: tag, wc, account, crc16
    keys = []
    for a in ADDRS:
        raw = base64.urlsafe_b64decode(a)
        check('address crc16 ' + a[:8], boc.crc16_xmodem(raw[:34]) == raw[34:])
        keys.append((int.from_bytes(raw[1:2], 'big', signed=True), raw[2:34]))
    # pinned two-entry dictionary (tests/test_hashmap.py): HashmapE 267 Grams
    m = {int(tlb.enc_addr_std(*keys[0]), 2): 15, int(tlb.enc_addr_std(*keys[1]), 2): 10}
    root = hashmap.build_hashmap(m, 267, lambda v: (tlb.enc_coins(v), ()))
    check('pinned dictionary hash', root.hash.hex() == DICT_HASH)
    parsed = hashmap.parse_hashmap(root, 267)
    check('reference dictionary parse', {int(k, 2): tlb.dec_uint(v[0][4:]) for k, v in parsed.items()} == m)
    # exotic bookkeeping: pruning keeps level-0 hashes, two nested merkle levels
    leaf = rcell.RCell('1011', ())
    mid = rcell.RCell('0101' * 9, (leaf, rcell.RCell('', ())))
    top = rcell.RCell('111', (mid, leaf))
    p1 = rcell.pruned_of(mid, 1)
    top_p = rcell.RCell('111', (p1, leaf))
    check('pruning keeps level-0 hash', top_p.hash_at(0) == top.hash and top_p.depth_at(0) == top.depth and top_p.mask == 1)
    mp = rcell.merkle_proof_of(top_p)
    check('merkle proof has level 0', mp.mask == 0 and mp.data_bytes()[1:33] == top.hash)
    p2 = rcell.pruned_of(p1, 2)
    check('pruned of pruned (mask 3)', p2.mask == 3 and p2.hash_at(0) == mid.hash and p2.hash_at(1) == p1.hash)
    try:
        from . import tl
        for name, ok in tl.selftest():
            check(name, ok)
    except ImportError:
        pass
    # pinned corpus of valid TON mnemonics: intact file, and a sample re-checked by the reference rule
    from . import mnemonic
    import hashlib as _h
    import os as _os
    mp = _os.path.join(_os.path.dirname(_os.path.abspath(__file__)), 'vectors', 'mnemonics.bin')
    check('mnemonic corpus intact', _os.path.exists(mp) and _h.sha256(open(mp, 'rb').read()).hexdigest() == 'e71c30a780389b4472d0752d0ce9c838c0f5c41e35aef190ee25c81e8cef7779')
    cp = mnemonic.corpus()
    check('mnemonic corpus sample is valid by the reference rule', len(cp) == 16384 and all(mnemonic.is_basic_seed_ref([mnemonic.WORDS[i] for i in cp[k]]) for k in range(0, 16384, 1024)))
    return bad


def collections_count(root):
    out = {}
    for c in root.walk():
        out[c.type] = out.get(c.type, 0) + 1
    return out


if __name__ == '__main__':
    b = run(True)
    print('SELFTEST', 'FAILED: %s' % b if b else 'passed')
    sys.exit(2 if b else 0)
