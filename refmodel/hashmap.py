"""Canonical TON Hashmap / HashmapAug builder and a reference parser (hashmap.tlb, crypto/vm/dict.cpp)."""
from .rcell import RCell
from .tlb import enc_uint


def label_bits(label, m):
    """hml_short / hml_long / hml_same with TON's tie-breaking; m = remaining key length."""
    n = len(label)
    k = m.bit_length()
    if n > 1 and label == label[0] * n and k < 2 * n - 1:
        return '11' + label[0] + enc_uint(n, k)
    if k < n:
        return '10' + enc_uint(n, k) + label
    return '0' + '1' * n + '0' + label


def _common_prefix(keys):
    a, b = min(keys), max(keys)
    i = 0
    while i < len(a) and a[i] == b[i]:
        i += 1
    return a[:i]


def build_edge(items, m, leaf, fork_extra=None):
    """items: {key bit string of length m: value}.  leaf(value) -> (bits, refs, extra) ;
    fork_extra(left_extra, right_extra) -> (extra_value, extra_bits[, extra_refs]) for HashmapAug (the extra's references
    follow the two children).
    Returns (RCell, extra)."""
    keys = list(items)
    label = _common_prefix(keys) if len(keys) > 1 else keys[0]
    bits = label_bits(label, m)
    rest = m - len(label)
    if len(keys) == 1:
        lb, lrefs, extra = leaf(items[keys[0]])
        return RCell(bits + lb, lrefs), extra
    l = {k[len(label) + 1:]: v for k, v in items.items() if k[len(label)] == '0'}
    r = {k[len(label) + 1:]: v for k, v in items.items() if k[len(label)] == '1'}
    lc, le = build_edge(l, rest - 1, leaf, fork_extra)
    rc, re_ = build_edge(r, rest - 1, leaf, fork_extra)
    extra = None
    erefs = ()
    if fork_extra is not None:
        res = fork_extra(le, re_)
        extra, ebits = res[0], res[1]
        erefs = tuple(res[2]) if len(res) > 2 else ()
        bits += ebits
    return RCell(bits, (lc, rc) + erefs), extra


def build_hashmap(mapping, n, value_bits):
    """Hashmap n X root for {int key: value}; value_bits(value) -> (bits, refs).  None if empty."""
    if not mapping:
        return None
    items = {bin(k)[2:].zfill(n): v for k, v in mapping.items()}
    cell, _ = build_edge(items, n, lambda v: value_bits(v) + (None,))
    return cell


def parse_label(bits, pos, m):
    """Returns (label, new_pos) reading any of the three label kinds.  Strict: a label longer than the remaining
    key length m, or running past the end of the cell's bits, raises ValueError."""
    k = m.bit_length()

    def need(end):
        if end > len(bits):
            raise ValueError('label runs past the end of the cell')
    need(pos + 1)
    if bits[pos] == '0':
        pos += 1
        n = 0
        need(pos + 1)
        while bits[pos] == '1':
            n += 1
            pos += 1
            need(pos + 1)
        pos += 1
        if n > m:
            raise ValueError('label longer than key')
        need(pos + n)
        return bits[pos:pos + n], pos + n
    need(pos + 2)
    if bits[pos + 1] == '0':
        need(pos + 2 + k)
        n = int(bits[pos + 2:pos + 2 + k], 2) if k else 0
        pos += 2 + k
        if n > m:
            raise ValueError('label longer than key')
        need(pos + n)
        return bits[pos:pos + n], pos + n
    need(pos + 3 + k)
    v = bits[pos + 2]
    n = int(bits[pos + 3:pos + 3 + k], 2) if k else 0
    if n > m:
        raise ValueError('label longer than key')
    return v * n, pos + 3 + k


def parse_hashmap(cell, n, prefix='', out=None):
    """Reference parse of Hashmap n X: {key bit string: (remaining bits, refs)}."""
    if out is None:
        out = {}
    label, pos = parse_label(cell.bits, 0, n)
    if len(label) > n:
        raise ValueError('label longer than key')
    prefix += label
    m = n - len(label)
    if m == 0:
        out[prefix] = (cell.bits[pos:], cell.refs)
    else:
        if len(cell.refs) < 2:
            raise ValueError('fork without two references')
        parse_hashmap(cell.refs[0], m - 1, prefix + '0', out)
        parse_hashmap(cell.refs[1], m - 1, prefix + '1', out)
    return out
