"""Reference TON mnemonic rules (hashlib only) and the pinned corpus of valid phrases.

WORDS is the BIP-39 English list (pinned copy, SHA-256 2f5eed53... = the published english.txt).
A 24-word phrase is valid iff PBKDF2-HMAC-SHA512(HMAC-SHA512(key=phrase, msg=''), 'TON seed version', 390)[0] == 0."""
import hashlib
import hmac
import os

_V = os.path.join(os.path.dirname(os.path.abspath(__file__)), 'vectors')
_raw = open(os.path.join(_V, 'bip39_english.txt'), 'rb').read()
assert hashlib.sha256(_raw).hexdigest() == '2f5eed53a4727b4bf8880d8f3f199efc90e58503646d9ff8eff3a2ed3b24dbda'
WORDS = _raw.decode().split()
assert len(WORDS) == 2048


def entropy_ref(words):
    return hmac.new(' '.join(words).encode(), b'', hashlib.sha512).digest()


def is_basic_seed_ref(words):
    return hashlib.pbkdf2_hmac('sha512', entropy_ref(words), b'TON seed version', 390)[0] == 0


def corpus():
    """List of index tuples (24 word indices each) of the pinned valid phrases; [] if the file is absent."""
    p = os.path.join(_V, 'mnemonics.bin')
    if not os.path.exists(p):
        return []
    data = open(p, 'rb').read()
    out = []
    for k in range(0, len(data) - 32, 33):
        v = int.from_bytes(data[k:k + 33], 'big')
        out.append(tuple((v >> (11 * (23 - j))) & 2047 for j in range(24)))
    return out
