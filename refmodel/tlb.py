"""TL-B primitive encodings as bit strings (block.tlb, tvm.pdf).  No pytoniq_core import."""
from .rcell import RCell


class EncodeError(Exception):
    """The value has no encoding of the requested type/width (must be refused by a store)."""


def enc_uint(v, n):
    if n < 0 or v < 0 or v >= (1 << n):
        raise EncodeError('uint %d does not fit %d bits' % (v, n))
    return bin(v)[2:].zfill(n) if n else ''


def enc_int(v, n):
    if n < 1 or not -(1 << (n - 1)) <= v < (1 << (n - 1)):
        raise EncodeError('int %d does not fit %d bits' % (v, n))
    return bin(v & ((1 << n) - 1))[2:].zfill(n)


def dec_uint(bits):
    return int(bits, 2) if bits else 0


def dec_int(bits):
    v = int(bits, 2)
    if bits[0] == '1':
        v -= 1 << len(bits)
    return v


def var_uint_bytes(v):
    if v < 0:
        raise EncodeError('negative VarUInteger')
    return (v.bit_length() + 7) // 8


def var_int_bytes(v):
    """Minimal two's-complement byte length (0 for 0)."""
    if v == 0:
        return 0
    n = 1
    while not -(1 << (8 * n - 1)) <= v < (1 << (8 * n - 1)):
        n += 1
    return n


def enc_var_uint(v, len_bits):
    """VarUInteger n with len field of len_bits bits (n = 2**len_bits)."""
    nb = var_uint_bytes(v)
    if nb >= (1 << len_bits):
        raise EncodeError('VarUInteger too long')
    return enc_uint(nb, len_bits) + enc_uint(v, 8 * nb)


def enc_var_int(v, len_bits):
    nb = var_int_bytes(v)
    if nb >= (1 << len_bits):
        raise EncodeError('VarInteger too long')
    return enc_uint(nb, len_bits) + (enc_int(v, 8 * nb) if nb else '')


def enc_coins(v):
    return enc_var_uint(v, 4)


def enc_bytes(b):
    return ''.join(bin(x)[2:].zfill(8) for x in b)


def enc_addr_none():
    return '00'


def enc_addr_extern(value, length):
    if not 0 <= length <= 511:
        raise EncodeError('addr_extern length')
    return '01' + enc_uint(length, 9) + enc_uint(value, length)


def enc_anycast(depth, pfx):
    if not 1 <= depth <= 30:
        raise EncodeError('anycast depth')
    return enc_uint(depth, 5) + enc_uint(pfx, depth)


def enc_addr_std(wc, account, anycast=None):
    if len(account) != 32:
        raise EncodeError('account id must be 32 bytes')
    s = '10'
    if anycast is None:
        s += '0'
    else:
        s += '1' + enc_anycast(*anycast)
    return s + enc_int(wc, 8) + enc_bytes(account)


def snake_cells(data, first_capacity_bytes):
    """Greedy snake chain as RCells: returns (inline_bytes, tail RCell or None)."""
    head, rest = data[:first_capacity_bytes], data[first_capacity_bytes:]
    if not rest:
        return head, None
    chunks = [rest[i:i + 127] for i in range(0, len(rest), 127)]
    tail = None
    for ch in reversed(chunks):
        tail = RCell(enc_bytes(ch), (tail,) if tail is not None else ())
    return head, tail


def read_snake(rcell):
    """Concatenated bytes of a snake chain; None if the chain is not a valid snake."""
    out = b''
    c = rcell
    seen = 0
    while True:
        if len(c.bits) % 8 or len(c.refs) > 1 or c.special:
            return None
        if c.bits:
            out += int(c.bits, 2).to_bytes(len(c.bits) // 8, 'big')
        if not c.refs:
            return out
        c = c.refs[0]
        seen += 1
        if seen > 100000:
            return None
